#!/bin/bash
# tools/thorough_all.sh [props]: run the thorough tier of every claimed property, one after the other
props="${*:-C01 C02 C03 C04 C05 C06 C07 C08 C11 C12 C13 C14 C15 C17 C19}"
export VERIF_REPO="${VP_RUN_REPO:-/repo}"
for p in $props; do
  /usr/bin/time -f "$p wall=%es maxrss=%MKB" ./check $p thorough --no-evidence 2>&1 | grep -E "done|VIOLATION|HARNESS|signature|wall=|wall budget" | cut -c1-260
done
