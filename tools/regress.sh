#!/bin/bash
# tools/regress.sh [filter]: apply every hand-written mutant and every seeded change to /repo in turn,
# run the quick check of its property, revert; write the detection matrix to /verif/sensitivity.tsv.
# (exit of each check: 1 = caught, 0 = missed, 2/other = harness problem)
cd /verif || exit 2
out=/verif/sensitivity.tsv; [ -n "${1:-}" ] && out=/tmp/sensitivity-$1.tsv
filter="${1:-}"
echo -e "kind\tid\tproperty\texit\tfirst_signature" > "$out.new"
run_one() { # kind id prop patch
  local kind="$1" id="$2" prop="$3" patch="$4"
  if ! git -C /repo apply --check "$patch" 2>/dev/null; then echo -e "$kind\t$id\t$prop\tno-apply\t-" >> "$out.new"; return; fi
  RUNS="${RUNS:-}" tools/try_patch.sh "$patch" "$prop" > /tmp/regress_one.log 2>&1
  local rc; rc=$(grep -oE "^== $prop exit=[0-9]+" /tmp/regress_one.log | grep -oE "[0-9]+$" | head -1)
  local sig; sig=$(grep -m1 "signature:" /tmp/regress_one.log | sed 's/^ *signature: //' | cut -c1-120)
  echo -e "$kind\t$id\t$prop\t${rc:-?}\t${sig:--}" >> "$out.new"
  echo "$kind $id $prop exit=${rc:-?}"
}
for m in mutants/*.diff; do
  id=$(basename "$m" .diff); [ -n "$filter" ] && [[ "$id" != *$filter* ]] && continue
  prop=$(echo "$id" | cut -c1-3 | tr c C)
  run_one mutant "$id" "$prop" "/verif/$m"
done
for d in seeded/*/; do
  id=$(basename "$d"); [ -n "$filter" ] && [[ "$id" != *$filter* ]] && continue
  prop=$(echo "$id" | cut -d- -f1)
  run_one seed "$id" "$prop" "/verif/$d/patch.diff"
done
mv "$out.new" "$out"
cat "$out" | cut -c1-200
