#!/usr/bin/env python3
"""Generate MANIFEST.json from the table below (single source of truth for claimed checks)."""
import json, sys

CLAIMED = {
 # id: (engine/rig, technique, level text, level note, design ref)
 "C01": ("H1", "deterministic simulation of the real h1 dispatcher over a scripted socket: seeded search over request streams x segmentations x readiness patterns, ground-truth oracle",
         "Seeded exploration: the real HttpService/h1::Dispatcher/decoder run against generated pipelined request streams (all framings, every malformed-framing class, canary after the malformed message) under simulator-chosen segmentations, 1-byte reads, injected Pending/WouldBlock and partial writes; what the application saw is compared with the generator's ground truth, the bytes written are parsed by an independent response reader. Sampling, not proof.",
         "Trusts the simulator's own socket/executor/response reader; TCP semantics (no loss/reorder inside a connection); leniency-zone syntax (bare LF, trailers, obs-fold) is not generated under the equality clause.", "§4 C01"),
 "C02": ("H1", "deterministic simulation of the real h1 dispatcher/encoder: seeded search over pipelined mixes x scripted handlers/bodies x timings; independent response parser, body-faithfulness oracle, metamorphic solo-run isolation oracle",
         "Seeded exploration: pipelined request mixes (methods, versions, Connection options, Expect) against scripted handlers (statuses, every body kind incl. empty chunks, short/long/erroring bodies, user framing headers) with simulator-chosen relative timing of handler completion, body readiness, later-request arrival and socket readiness. The written bytes are parsed by an independent RFC 7230 reader told the request methods; bodies are compared with what each body actually yielded; framing of each response is compared with the same request+handler run alone. Sampling, not proof.",
         "Trusts the simulator and its response reader; handlers use body::None only with 204/304 (documented use); a truncated message with the connection terminated is accepted.", "§4 C02"),
 "C03": ("H1", "deterministic simulation of the real h1 dispatcher: seeded search over handlers that read none/part/all of the body and respond early or late x segmentations x timings; ground-truth and close-discipline oracles",
         "Seeded exploration: pipelined sequences whose handlers read none/some/all of the request body, drop or hold the payload, answer early or late, with keep-alive on/off, half-close allowed or not and the remaining body bytes arriving under simulator-chosen segmentation and timing. Every dispatched request must be byte-exactly the next ground-truth request (so ignored body bytes are never parsed as a head, drained bodies are drained to their exact end) and nothing may be written or dispatched after a response that ends the connection. Sampling, not proof.",
         "Trusts the simulator and its response reader; whether actix classifies a body as drainable is its own policy and is not second-guessed.", "§4 C03"),
 "C04": ("H1", "deterministic simulation under a wake-driven executor: tasks are polled only when woken; seeded search over socket/handler/body readiness patterns; quiescence + probe poll for lost wake-ups; metamorphic reference run for byte order",
         "Seeded exploration with timers disabled: adversarial socket (1-byte/short reads, injected Pending/WouldBlock, partial writes, zero-capacity stalls with later grants, flush Pending), handlers and bodies that return Pending, request bodies consumed by a separate simulator task, response bodies fed from another task, peer half-close at any point. The connection task is polled only when its waker fired; at quiescence a probe poll that makes progress is a lost wake-up; output must equal the trivial-schedule reference run byte for byte (canonical form); after peer EOF and handler completion the connection future must complete. Sampling, not proof.",
         "Fairness: every injected stall is finite. Scenarios are restricted to the class whose output is schedule-independent by specification (handlers consume their bodies, nothing ends the connection early).", "§4 C04"),
 "C05": ("H1", "deterministic simulation with black-box byte accounting after every simulator step (bytes taken from the socket minus bytes handed to the application; bytes pulled from bodies minus bytes accepted by the socket) under a window-respecting peer and stalled consumers",
         "Seeded exploration of volume workloads against the real dispatcher: endless request head, multi-MB bodies against handlers that do not read / read one chunk per wake / read from another task, tens of thousands of tiny pipelined requests behind a stalled handler, multi-MB streaming responses against a socket that accepts a few bytes per grant, all h1_write_buffer_size values. The peer keeps a TCP-like window, so whatever the server does not read stays outside; read-ahead and write-ahead are measured after every step against bounds derived from the documented limits with a 2x margin. Sampling, not proof.",
         "Bounds are the documented constants (128 KiB decoder buffer + one read + 32 KiB payload buffer; write buffer + one chunk) with margin; live-heap peak is reported as a diagnostic only (the harness's own buffers share the allocator).", "§4 C05"),
 "C06": ("H1", "deterministic simulation on tokio's paused clock (discrete-event virtual time): seeded search over byte-arrival times relative to the three timers, timer configurations, shutdown-signal instants and pending shutdowns; timing-window oracles",
         "Seeded exploration on virtual time: first heads completing before / inside / after the request-timeout window, second requests arriving before / inside / after the keep-alive window (whole or in two pieces, with handlers slower than the keep-alive period), shutdowns that the peer never completes under every way of entering shutdown (Connection: close, keep-alive expiry, linger after an early response), graceful-shutdown signals fired at every phase of in-flight and queued requests. Oracles use the 500 ms resolution of the server's cached clock as the legal firing window. Sampling, not proof.",
         "The 500 ms resolution of DateService is treated as specified behaviour: a timer may fire up to 500 ms early; arrivals inside the window are judged on safety only.", "§4 C06"),
 "C07": ("PC", "deterministic simulation of the real h1::Payload channel: seeded search over interleavings of single feeder/reader operations with counting wakers, checked operation by operation against a byte-queue reference model",
         "Seeded exploration: sequences of up to 14 single operations (feed_data with sizes straddling 32 KiB, feed_eof, set_error, sender drop, need_read, reader poll, unread_data, reader drop) in every interleaving the generator draws, against a reference model (byte queue + eof/err/sender-gone). Exact bytes, truthful ending (error before clean end, never a clean end for a cut-short body), reader wake-up on every event after a Pending poll, feeder wake-up once drained below the limit. Sampling (≈3M sequences per quick run), not proof.",
         "The reader stops polling once it has observed an end; when exactly Pause is reported is C05's subject.", "§4 C07"),
 "C08": ("H2", "deterministic simulation of the real HTTP/2 server path against the h2 crate's client endpoint over a simulated duplex pipe: seeded search over body chunkings x window sizes x per-stream read/grant schedules x byte-movement interleavings x stalled and reset streams",
        "Seeded exploration: one HTTP/2 connection with 1–5 concurrent streams served by the real HttpService/h2::Dispatcher (handle_response, prepare_response); bodies None/whole/sized/streamed with empty chunks, chunks equal to, one above and many times the stream window, up to 90 KB, Pending between chunks, bodies that fail mid-way, HEAD, 204/304, handler-set HTTP/1-only headers; stream windows from 1 byte to 200 KB, frame sizes 16–100 KB; the simulator moves bytes in either direction in pieces from 1 byte to everything, grants each client stream one read (one window release) at a time, holds some streams unread until all others have finished, resets others after k chunks. Each stream must deliver exactly the bytes its body produced (nothing for HEAD/204/304), a content-length equal to the body when present, no connection-specific header, an error rather than a clean end when the body failed; streams other than the unread ones must finish while those are held; everything finishes once the held streams are read. Sampling, not proof.",
        "Response tasks are spawned by the dispatcher on the runtime (actix_rt::spawn): the simulator lets them run once per step in the runtime's FIFO order, so their relative order is deterministic but not searched. The h2 crate (both endpoints) is trusted. The connection window is kept larger than what unread streams can hold.", "§4 C08"),
 "C11": ("WK", "deterministic simulation of one real App service instance (one worker) shared by several HTTP/1 connections over scripted sockets: seeded search over request histories x interleavings of delivery, handler suspension, clone release and connection abort; metamorphic oracle against a fresh service instance plus sent-vs-seen oracle",
        "Seeded exploration: 2–12 requests over 1–4 connections through ONE App/AppInitService (scopes with their own app_data, named and parameterised resources, a middleware that sets a request extension for some requests, on_connect data per connection) under simulator-chosen interleavings: which connection's request is delivered next, when a gated handler resumes, when kept HttpRequest clones are dropped (delayed recycling), a connection task dropped while its handler is suspended, and every 50th run 135 parked requests so that the 128-entry request pool overflows. Each handler dumps everything reachable from HttpRequest (method, URI, version, headers, match_info, match name/pattern, extensions, connection data, app_data at each level, peer address) at entry and after its suspension; each dump must equal the dump a freshly built service instance gives for that request alone, must equal what the peer sent, and must not change across the suspension. Sampling, not proof.",
        "The message pool of actix-http is thread-local and therefore shared with the reference run; the sent-vs-seen oracle covers what that could mask. HTTP/1 only.", "§4 C11"),
 "C13": ("CC", "deterministic simulation of the real Compress middleware and encoding::Decoder over scripted body streams: seeded search over Accept-Encoding lists x body kinds/sizes x chunkings with Pending x content types/statuses x stream faults; reference codecs and an independent RFC 7231 acceptability rule",
        "Seeded exploration: responses produced through App.wrap(Compress) for generated Accept-Encoding header values (q-values, wildcard, identity exclusions, unknown codings, duplicates), bodies None/sized/streamed from 0 B to MBs in chunks with Pending between them, statuses/content types/handler-set Content-Encoding; the chosen coding must be acceptable under an independently written RFC 7231 §5.3.4 rule (or 406), headers must agree with the bytes (Content-Encoding, Vary, no stale Content-Length), and the body decoded by the reference codec must equal what the handler produced; request bodies with Content-Encoding are decoded under chunkings and truncations and must equal the original or fail, never a clean short body. Sampling, not proof.",
        "Bit flips inside br/zstd streams are not judged (the formats carry no checksum by default); only truncation is. Handler-set Content-Length is not judged at middleware level.", "§4 C13"),
 "C17": ("CL", "deterministic simulation of the real awc client (pool, h1 client codec, payload stream) over simulated sockets handed out by a custom connector: seeded search over response framings x cut/reset offsets x segmentations x request histories with early-dropped bodies x interleavings of concurrent client tasks above the pool limit; scripted peer with an independent response serializer",
        "Seeded exploration: 1–6 requests (concurrent or chained, GET/HEAD) through one awc::Client with connection limit 1–3 against a scripted HTTP/1 peer: HTTP/1.0 and 1.1, Content-Length / chunked / close-delimited bodies from 0 B to 70 KB, 200/404/204/304, Connection absent/close/keep-alive, the connection ended (FIN or RST) at an arbitrary byte offset of head or body, closed after a complete response, response bytes delivered in simulator-chosen segments down to single bytes with read caps, connects that complete late, clients that drop the response after the head or after n chunks. Every delivered body must be a prefix of the body sent for that very request and a clean end requires the complete framed body; a connection is used again only after a persistent, completely read exchange (judged from the script by an independent RFC 7230 §6.3 rule); open sockets never exceed the limit; a complete response on a fresh connection is not an error; client tasks finish once the peer has nothing more to do (virtual-time budget). Sampling, not proof.",
        "Single authority (idle pooled connections to other hosts are outside the permit accounting by design); the peer never sends unsolicited bytes; HTTP/2 client connections are not driven.", "§4 C17"),
 "C12": ("EX", "deterministic simulation of the real extractor futures over a scripted payload stream under a wake-driven executor: seeded search over limits x decoded lengths around the limit x chunkings with Pending x content codings x declared lengths x stream faults; every scenario also run under the trivial schedule (metamorphic)",
         "Seeded exploration: Bytes, String, Json, Form and Payload::to_bytes_limited extractors with limits 0…256 KiB, decoded lengths limit-1/limit/limit+1/10x/multi-MB, 1-byte to 100 KB chunks straddling the in-place/spawn_blocking decode thresholds, Pending between chunks, identity/gzip/deflate/br/zstd, absent/honest/lying Content-Length, payload errors and truncated compressed streams. Success implies a value within the limit and equal to what was sent; a decoded body over the limit yields the extractor's overflow error (never success, never a parse error of a prefix); the outcome class is the same under the drawn chunking and as a single chunk; live-heap growth during extraction stays within 2x limit + 2 chunks + a fixed slack even for multi-MB bodies (identity/gzip/deflate). Sampling, not proof.",
         "MultipartForm field limits are not driven here; the heap bound is not checked for brotli/zstd (their contexts are megabytes by themselves).", "§4 C12"),
 "C14": ("WS", "deterministic simulation of the real ws::Codec in both roles fed under simulator-chosen read segmentation; seeded search over frame sequences (legal and each illegal class), sizes at the encoding boundaries, max_size values and cuts; independent RFC 6455 model and SHA-1",
         "Seeded exploration: frame sequences written by an independent RFC 6455 serializer (all opcodes, lengths at 125/126/65535/65536, masks, legal fragmentation and every illegal class: wrong masking for the role, reserved opcode, fragmented or over-long control frame, continuation without start, data frame inside a fragmented message, announced length above max_size up to 2^64-1) fed to the real decoder under cuts inside headers, masks and payloads; the decoded sequence must equal the reference state machine's for every segmentation, an oversized frame must be refused as soon as its header is complete, no delivered frame exceeds max_size; messages encoded by one role must decode at the other to the same messages and be well-formed for the independent parser; upgrade requests parsed by the real HTTP/1 decoder under segmentation are accepted iff well-formed, with the accept key checked against an independent SHA-1/base64. Sampling, not proof.",
         "The byte feeder reproduces Framed's read loop (append, decode until None); RSV bits always 0; an over-long Close may be answered by an error or a bare Close; behaviour after a Close frame is not judged.", "§4 C14"),
 "C15": ("MP", "deterministic simulation of the real multipart parser over a scripted body stream: seeded search over field lists x boundaries x chunkings with Pending between chunks x truncation points x stream errors x consumer behaviour, under a wake-driven executor with quiescence detection; ground truth from an independent RFC 2046 producer",
         "Seeded exploration: bodies built from 0–4 fields (empty, text, binary with CR/LF/dashes, contents ending in CR/CRLF/--, boundary look-alikes) by an independent producer, legal random boundaries of length 1–70, preamble/epilogue, chunkings down to single bytes with Pending between chunks, truncation at arbitrary offsets and inside delimiters, malformed delimiters/headers, stream errors, consumers that drop a field early, buffer limits from 300 B to 1 MB. Delivered fields must equal ground truth for every chunking; truncated/malformed bodies must end in an error (the consumer task is polled only when woken: a parked consumer with no wake-up pending is a hang); no clean end with cut or merged fields; the parser never pulls more input while holding more than its limit plus a chunk. Sampling, not proof.",
         "Bodies cut after the complete close delimiter may be accepted or refused; a malformed first delimiter line is preamble for a conforming parser.", "§4 C15"),
}

NOT_APPLICABLE = {
 "C09": "routing is a pure function of (route table, request): no schedule, clock, I/O or fault enters AppRouting/ScopeService/Router::recognize_fn; deciding it is input/config generation against a reference router (property-based testing), not simulation",
 "C10": "ResourceDef::{is_match,find_match,capture_match_info}, build_resource_path and Quoter::requote are pure functions of (pattern, path); nothing for a scheduler or fault injector to vary",
 "C16": "path confinement and range/conditional arithmetic are pure functions of (URL path, headers, file length); the only I/O element (ChunkedReadFile) hard-wires std::fs::File with no injectable seam, so the simulator owns no fault or interleaving dimension",
 "C18": "HeaderMap is a !Sync sequential container: an operation history is just an input sequence; no concurrency, time or I/O exists for the property to depend on",
}

NOT_YET = {}

def main():
    allp = [json.loads(l)["id"] for l in open("/verif/properties.jsonl")]
    checks = []
    for pid in allp:
        if pid in CLAIMED:
            rig, tech, text, note, ref = CLAIMED[pid]
            checks.append({
                "property_id": pid,
                "quick_cmd": f"./check {pid} quick",
                "thorough_cmd": f"./check {pid} thorough",
                "evidence_file": f"/verif/evidence/{pid}.json",
                "replay_cmd_template": f"./check {pid} --replay {{path}}",
                "engine": "actix-sim",
                "level_claimed": {"category": "exploration", "text": text, "design_ref": ref},
                "level_note": note,
                "technique": tech,
            })
    na = []
    for pid in allp:
        if pid in CLAIMED: continue
        if pid in NOT_APPLICABLE:
            na.append({"property_id": pid, "reason": NOT_APPLICABLE[pid]})
        else:
            na.append({"property_id": pid, "reason": NOT_YET.get(pid, "not claimed yet: the simulation rig for this property has not been built/validated at this commit (see DESIGN.md §4 for the planned rig)")})
    m = {
        "version": 1,
        "setup_cmd": "./check build",
        "hooks": {
            "guard": "actix_web_verif",
            "enable": "none needed: every seam used by the simulator is public API (generic I/O type on HttpService, awc Connector::connector, tokio paused clock); no source change in /repo is guarded",
            "baseline_off_cmd": "cd /repo && cargo nextest run --workspace --no-fail-fast --tool-config-file pb:/w/lib/nextest.toml --profile pb --test-threads 8 --offline || cargo test --workspace --no-fail-fast --offline",
            "source_commits": [],
            "add_only": True,
        },
        "engines": [{
            "name": "actix-sim",
            "path": "/verif/sim",
            "serves_properties": sorted(CLAIMED.keys()),
            "kind_free_text": "deterministic simulator (own executor, socket, clock on tokio's paused time, seeded decision tape, shrinking, replay files) running the real actix-http/actix-web/awc/actix-multipart code in one thread",
        }],
        "checks": checks,
        "not_applicable": na,
        "notes": "All checks: ./check <ID> quick|thorough; exit 0 = held (KNOWN-FINDING lines for entries of known_findings.json), 1 = VIOLATION line with replay file, 2 = harness error. VERIF_SEED selects the batch seed (default fixed).",
    }
    json.dump(m, open("/verif/MANIFEST.json", "w"), indent=1)
    print("wrote MANIFEST.json:", len(checks), "checks,", len(na), "not claimed")

main()
