#!/bin/bash
# tools/seed_sweep.sh "<props>" "<seeds>" [tier]: no-alarm runs with other VERIF_SEED values
props="$1"; seeds="$2"; tier="${3:-quick}"
export VERIF_REPO="${VP_RUN_REPO:-/repo}"
for s in $seeds; do for p in $props; do
  VERIF_SEED=$s ./check $p $tier --no-evidence 2>&1 | grep -E "done|VIOLATION|HARNESS|signature" | sed "s/^/seed=$s /" | cut -c1-260
done; done
