#!/bin/bash
# tools/try_patch.sh <patch.diff> <PROP> [<PROP> ...]   (env: TIER=quick|thorough, RUNS=N)
# Applies a patch to /repo, runs the given checks, and always reverts the patch.
set -u
patch="$1"; shift
cd /repo || exit 2
if ! git diff --quiet; then echo "refusing: /repo has uncommitted changes"; exit 2; fi
git apply "$patch" || { echo "patch does not apply"; exit 2; }
trap 'git -C /repo checkout -- . ; /verif/check build-sim >/dev/null 2>&1' EXIT
rc_all=0
for p in "$@"; do
  extra=""
  if [ -n "${RUNS:-}" ]; then extra="--runs $RUNS"; fi
  /verif/check "$p" "${TIER:-quick}" --no-evidence $extra > /tmp/try_patch_$p.log 2>&1
  rc=$?
  echo "== $p exit=$rc"; grep -E "^(VIOLATION|KNOWN-FINDING|HARNESS)|signature:" /tmp/try_patch_$p.log | cut -c1-300 | head -20
  tail -n 1 /tmp/try_patch_$p.log
  if [ $rc -ne 0 ]; then rc_all=$rc; fi
done
exit $rc_all
