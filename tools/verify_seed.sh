#!/bin/bash
# tools/verify_seed.sh <worktree> <seed-dir> <package> : confirm a seeded change in a scratch worktree:
#   demo passes without the patch, suite passes with the patch, demo fails with the patch.
set -u
wt="$1"; sd="$2"; pkg="${3:-actix-http}"
export CARGO_TARGET_DIR="$wt/target" CARGO_NET_OFFLINE=true
cd "$wt" || exit 2
git checkout -q -- . 
demo=$(cat "$sd/demo_cmd.txt" | grep -v '^#' | grep cargo | head -1)
echo "demo cmd: $demo"
echo "--- without patch: demo"
( eval "$demo" ) > /tmp/vs_demo_clean.log 2>&1; echo "demo(clean) exit=$?"
git apply "$sd/patch.diff" || { echo "patch does not apply"; exit 2; }
echo "--- with patch: suite ($pkg)"
if [ "$pkg" = workspace ]; then
  cargo nextest run --workspace --no-fail-fast --tool-config-file pb:/w/lib/nextest.toml --profile pb --test-threads 8 --offline -E 'not binary(~seeded_demo)' > /tmp/vs_suite.log 2>&1
else
  cargo nextest run -p $pkg --offline --no-fail-fast -E 'not binary(~seeded_demo)' > /tmp/vs_suite.log 2>&1
fi; echo "suite(patched) exit=$?"; grep -E "Summary|^\s+FAIL" /tmp/vs_suite.log | sort | uniq | head
echo "--- with patch: demo"
( eval "$demo" ) > /tmp/vs_demo_patched.log 2>&1; echo "demo(patched) exit=$?"; grep -E "Summary|^\s+FAIL|test result" /tmp/vs_demo_patched.log | sort | uniq | head -5
git checkout -q -- .
