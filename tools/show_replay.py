#!/usr/bin/env python3
import json,sys
r=json.load(open(sys.argv[1]))
sc=r['scenario']
print("SIG", r['signature']); print("DETAIL", r['detail'][:500])
for ci,c in enumerate(sc['conns']):
    for q in c['reqs']: print(" req", {k:q[k] for k in ('id','method','minor','conn_opt','framing','body_len','expect100','malformed') if q.get(k) not in (None,False)})
    for p in c['progs']:
        a=p['answer']; print(" prog", p['steps'], {k:a[k] for k in a if a[k] not in ([],0,None,False)})
    print(" segs", [(s['end'],s['delay_ms'],s['wait']) for s in c['segs'][:12]], 'end', c['end'], 'reset_after_out', c['reset_after_out'])
    print(" sock", {k:v for k,v in c['sock'].items() if v not in (0,None,False,'Full','Ready')}, 'grants', c['grants'][:6])
print(" cfg", sc['cfg'], 'gates', sc['gates'], 'signal', sc['signal_at_ms'], 'horizon', sc['horizon_ms'])
n=int(sys.argv[2]) if len(sys.argv)>2 else 30
for l in r['narrative'][-n:]: print(l[:int(sys.argv[3]) if len(sys.argv)>3 else 400])
