#!/usr/bin/env python3
import json, jsonschema, glob, sys
m=json.load(open('/verif/MANIFEST.json')); s=json.load(open('/root/.vp/MANIFEST.schema.json')); jsonschema.validate(m,s); print("manifest ok")
es=json.load(open('/root/.vp/EVIDENCE.schema.json'))
for f in sorted(glob.glob('/verif/evidence/*.json')):
    jsonschema.validate(json.load(open(f)), es); print("evidence ok", f)
