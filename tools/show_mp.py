#!/usr/bin/env python3
import json,sys
r=json.load(open(sys.argv[1])); sc=r['scenario']
print("SIG", r['signature']); print("DETAIL", r['detail'][:400])
d={k:sc[k] for k in sc if k not in ('fields','cuts','pendings')}
d['ncuts']=len(sc['cuts']); d['cuts_head']=sc['cuts'][:12]; d['npend']=sum(1 for p in sc['pendings'] if p)
print(d); print(sc['fields'])
print("\n".join(l[:1000] for l in r['narrative']))
