//! Counting global allocator: per-thread live bytes and high-water mark (each simulated run is
//! single-threaded, so the thread-local counters measure exactly that run).

use std::{
    alloc::{GlobalAlloc, Layout, System},
    cell::Cell,
};

pub struct Counting;

thread_local! {
    static LIVE: Cell<usize> = const { Cell::new(0) };
    static PEAK: Cell<usize> = const { Cell::new(0) };
}

unsafe impl GlobalAlloc for Counting {
    unsafe fn alloc(&self, l: Layout) -> *mut u8 {
        let p = System.alloc(l);
        if !p.is_null() {
            add(l.size());
        }
        p
    }
    unsafe fn dealloc(&self, p: *mut u8, l: Layout) {
        System.dealloc(p, l);
        sub(l.size());
    }
    unsafe fn realloc(&self, p: *mut u8, l: Layout, new: usize) -> *mut u8 {
        let q = System.realloc(p, l, new);
        if !q.is_null() {
            if new >= l.size() {
                add(new - l.size());
            } else {
                sub(l.size() - new);
            }
        }
        q
    }
    unsafe fn alloc_zeroed(&self, l: Layout) -> *mut u8 {
        let p = System.alloc_zeroed(l);
        if !p.is_null() {
            add(l.size());
        }
        p
    }
}

fn add(n: usize) {
    let _ = LIVE.try_with(|c| {
        let v = c.get().wrapping_add(n);
        c.set(v);
        let _ = PEAK.try_with(|p| {
            if v > p.get() && v < (usize::MAX >> 1) {
                p.set(v)
            }
        });
    });
}

fn sub(n: usize) {
    let _ = LIVE.try_with(|c| c.set(c.get().wrapping_sub(n)));
}

pub fn live() -> usize {
    let v = LIVE.with(|c| c.get());
    if v > (usize::MAX >> 1) {
        0
    } else {
        v
    }
}

pub fn peak() -> usize {
    PEAK.with(|c| c.get())
}

pub fn reset_peak() {
    let l = live();
    PEAK.with(|c| c.set(l));
}
