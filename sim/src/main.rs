mod alloc;
mod batch;
mod cc;
mod cl;
mod ex;
mod exec;
mod fz;
mod h1;
mod h2r;
mod mp;
mod pc;
mod resp;
mod rng;
mod sock;
mod wk;
mod ws;

use batch::{BatchOpts, Tier, DEFAULT_SEED};

#[global_allocator]
static GLOBAL: alloc::Counting = alloc::Counting;

fn usage() -> ! {
    eprintln!("usage: simcheck <PROPERTY> [quick|thorough] [--replay <file>] [--runs N] [--jobs N] [--no-evidence] [--hashes <file>]");
    std::process::exit(2)
}

fn main() {
    let args: Vec<String> = std::env::args().skip(1).collect();
    if args.is_empty() {
        usage();
    }
    let prop = args[0].clone();
    let mut tier = match std::env::var("VERIF_TIER").ok().as_deref() {
        Some("thorough") => Tier::Thorough,
        _ => Tier::Quick,
    };
    let mut replay: Option<String> = None;
    let mut runs: Option<u64> = None;
    let mut jobs: usize = std::thread::available_parallelism().map(|n| n.get()).unwrap_or(4);
    let mut write_evidence = true;
    let mut hashes_out = None;
    let mut i = 1;
    while i < args.len() {
        match args[i].as_str() {
            "quick" => tier = Tier::Quick,
            "thorough" => tier = Tier::Thorough,
            "--replay" => {
                i += 1;
                replay = Some(args.get(i).cloned().unwrap_or_else(|| usage()));
            }
            "--runs" => {
                i += 1;
                runs = args.get(i).and_then(|s| s.parse().ok());
            }
            "--jobs" => {
                i += 1;
                jobs = args.get(i).and_then(|s| s.parse().ok()).unwrap_or(jobs);
            }
            "--no-evidence" => write_evidence = false,
            "--hashes" => {
                i += 1;
                hashes_out = args.get(i).cloned();
            }
            _ => usage(),
        }
        i += 1;
    }
    let seed = std::env::var("VERIF_SEED").ok().and_then(|s| s.parse::<u64>().ok()).unwrap_or(DEFAULT_SEED);
    batch::install_panic_hook();
    let opts = BatchOpts {
        seed,
        tier,
        jobs,
        runs_override: runs,
        write_evidence: write_evidence && replay.is_none(),
        hashes_out,
    };
    macro_rules! go {
        ($rig:expr) => {{
            let rig = $rig;
            let code = match &replay {
                Some(p) => batch::replay(&rig, p),
                None => batch::run_batch(&rig, &opts).exit,
            };
            std::process::exit(code);
        }};
    }
    match prop.as_str() {
        "C01" => go!(h1::H1Rig { prop: "C01" }),
        "C02" => go!(h1::H1Rig { prop: "C02" }),
        "C03" => go!(h1::H1Rig { prop: "C03" }),
        "C04" => go!(h1::H1Rig { prop: "C04" }),
        "C05" => go!(h1::H1Rig { prop: "C05" }),
        "C06" => go!(h1::H1Rig { prop: "C06" }),
        "C07" => go!(pc::PcRig),
        "C12" => go!(ex::ExRig),
        "C08" => go!(h2r::H2Rig),
        "C11" => go!(wk::WkRig),
        "C13" => go!(cc::CcRig),
        "C17" => go!(cl::ClRig),
        "C19" => go!(fz::FzRig),
        "C14" => go!(ws::WsRig),
        "C15" => go!(mp::MpRig),
        _ => {
            eprintln!("unknown property {}", prop);
            std::process::exit(2);
        }
    }
}
