//! Rig WS (C14): the real `ws::Codec` (both roles) fed with simulator-chosen read segmentation,
//! judged against an independent RFC 6455 frame model; the handshake is checked through the real
//! HTTP/1 request decoder against an independent SHA-1/base64.

use actix_http::ws::{self, Codec, Frame, Item, Message};
use bytes::{Bytes, BytesMut};
use serde::{Deserialize, Serialize};
use tokio_util::codec::{Decoder, Encoder};

use crate::{
    batch::{Rig, RunReport, Tier, Violation},
    rng::{Rng, Tape},
};

// ------------------------------------------------------------------------------------------
// independent model

#[derive(Clone, Debug, Serialize, Deserialize, PartialEq, Eq)]
pub struct FrameSpec {
    pub fin: bool,
    pub opcode: u8,
    /// announced payload length
    pub len: u64,
    /// payload bytes actually present (== len unless the frame is an oversize announcement)
    pub present: u64,
    pub masked: bool,
    pub mask: [u8; 4],
    pub seed: u32,
    /// use a longer-than-necessary length encoding (126 form for < 126 etc.)
    pub nonminimal: bool,
}

pub fn payload(spec: &FrameSpec) -> Vec<u8> {
    let mut x = (spec.seed as u64) << 7 ^ 0xA5A5_5A5A_1234;
    (0..spec.present).map(|_| crate::rng::splitmix(&mut x) as u8).collect()
}

/// Independent serializer (RFC 6455 §5.2). Returns (bytes, header_len).
pub fn serialize(spec: &FrameSpec) -> (Vec<u8>, usize) {
    let mut out = Vec::new();
    out.push(if spec.fin { 0x80 } else { 0 } | (spec.opcode & 0x0F));
    let m = if spec.masked { 0x80u8 } else { 0 };
    if spec.len < 126 && !spec.nonminimal {
        out.push(m | spec.len as u8);
    } else if spec.len <= 65_535 && !(spec.nonminimal && spec.len >= 126) {
        out.push(m | 126);
        out.extend_from_slice(&(spec.len as u16).to_be_bytes());
    } else {
        out.push(m | 127);
        out.extend_from_slice(&spec.len.to_be_bytes());
    }
    if spec.masked {
        out.extend_from_slice(&spec.mask);
    }
    let hl = out.len();
    let p = payload(spec);
    if spec.masked {
        out.extend(p.iter().enumerate().map(|(i, b)| b ^ spec.mask[i % 4]));
    } else {
        out.extend_from_slice(&p);
    }
    (out, hl)
}

#[derive(Clone, Debug, PartialEq, Eq)]
pub enum Exp {
    Text(Vec<u8>),
    Binary(Vec<u8>),
    First(bool, Vec<u8>), // true = text
    Cont(Vec<u8>),
    Last(Vec<u8>),
    Ping(Vec<u8>),
    Pong(Vec<u8>),
    Close(Vec<u8>),
    /// over-long close: an error or a bare Close are both acceptable
    CloseOrError,
    Error(&'static str),
}

/// Reference state machine: what a strict RFC 6455 receiver of role `server` must produce.
pub fn expected(frames: &[FrameSpec], server: bool, max_size: u64) -> Vec<Exp> {
    let mut out = Vec::new();
    let mut in_frag = false;
    for f in frames {
        if f.masked != server {
            out.push(Exp::Error("masking"));
            break;
        }
        let op = f.opcode;
        if matches!(op, 3..=7 | 11..=15) {
            out.push(Exp::Error("reserved-opcode"));
            break;
        }
        if f.len > max_size {
            out.push(Exp::Error("too-large"));
            break;
        }
        let p = payload(f);
        let control = op >= 8;
        if control {
            if !f.fin {
                out.push(Exp::Error("fragmented-control"));
                break;
            }
            if f.len > 125 {
                if op == 8 {
                    out.push(Exp::CloseOrError);
                } else {
                    out.push(Exp::Error("long-control"));
                }
                break;
            }
            out.push(match op {
                8 => Exp::Close(p),
                9 => Exp::Ping(p),
                _ => Exp::Pong(p),
            });
            // (what a receiver does with frames after a Close frame is not part of the property)
            continue;
        }
        match (op, f.fin, in_frag) {
            (0, _, false) => {
                out.push(Exp::Error("continuation-without-start"));
                break;
            }
            (0, true, true) => {
                in_frag = false;
                out.push(Exp::Last(p));
            }
            (0, false, true) => out.push(Exp::Cont(p)),
            (_, _, true) => {
                out.push(Exp::Error("start-inside-fragmented-message"));
                break;
            }
            (1, true, false) => out.push(Exp::Text(p)),
            (2, true, false) => out.push(Exp::Binary(p)),
            (o, false, false) => {
                in_frag = true;
                out.push(Exp::First(o == 1, p));
            }
            _ => unreachable!(),
        }
    }
    out
}

// SHA-1 + base64, written out (independent of the sha1/base64 crates actix uses)
pub fn sha1(data: &[u8]) -> [u8; 20] {
    let mut h: [u32; 5] = [0x67452301, 0xEFCDAB89, 0x98BADCFE, 0x10325476, 0xC3D2E1F0];
    let mut msg = data.to_vec();
    let ml = (data.len() as u64) * 8;
    msg.push(0x80);
    while msg.len() % 64 != 56 {
        msg.push(0);
    }
    msg.extend_from_slice(&ml.to_be_bytes());
    for chunk in msg.chunks(64) {
        let mut w = [0u32; 80];
        for i in 0..16 {
            w[i] = u32::from_be_bytes([chunk[4 * i], chunk[4 * i + 1], chunk[4 * i + 2], chunk[4 * i + 3]]);
        }
        for i in 16..80 {
            w[i] = (w[i - 3] ^ w[i - 8] ^ w[i - 14] ^ w[i - 16]).rotate_left(1);
        }
        let (mut a, mut b, mut c, mut d, mut e) = (h[0], h[1], h[2], h[3], h[4]);
        for (i, wi) in w.iter().enumerate() {
            let (f, k) = match i {
                0..=19 => ((b & c) | (!b & d), 0x5A827999u32),
                20..=39 => (b ^ c ^ d, 0x6ED9EBA1),
                40..=59 => ((b & c) | (b & d) | (c & d), 0x8F1BBCDC),
                _ => (b ^ c ^ d, 0xCA62C1D6),
            };
            let t = a.rotate_left(5).wrapping_add(f).wrapping_add(e).wrapping_add(k).wrapping_add(*wi);
            e = d;
            d = c;
            c = b.rotate_left(30);
            b = a;
            a = t;
        }
        h[0] = h[0].wrapping_add(a);
        h[1] = h[1].wrapping_add(b);
        h[2] = h[2].wrapping_add(c);
        h[3] = h[3].wrapping_add(d);
        h[4] = h[4].wrapping_add(e);
    }
    let mut out = [0u8; 20];
    for i in 0..5 {
        out[4 * i..4 * i + 4].copy_from_slice(&h[i].to_be_bytes());
    }
    out
}

pub fn base64(data: &[u8]) -> String {
    const T: &[u8] = b"ABCDEFGHIJKLMNOPQRSTUVWXYZabcdefghijklmnopqrstuvwxyz0123456789+/";
    let mut s = String::new();
    for c in data.chunks(3) {
        let n = (c[0] as u32) << 16 | (*c.get(1).unwrap_or(&0) as u32) << 8 | *c.get(2).unwrap_or(&0) as u32;
        s.push(T[(n >> 18) as usize & 63] as char);
        s.push(T[(n >> 12) as usize & 63] as char);
        s.push(if c.len() > 1 { T[(n >> 6) as usize & 63] as char } else { '=' });
        s.push(if c.len() > 2 { T[n as usize & 63] as char } else { '=' });
    }
    s
}

// ------------------------------------------------------------------------------------------

#[derive(Clone, Debug, Serialize, Deserialize)]
pub struct HsSpec {
    pub method: String,
    pub upgrade: Option<String>,
    pub connection: Option<String>,
    pub version: Option<String>,
    pub key: Option<String>,
}

#[derive(Clone, Debug, Serialize, Deserialize)]
pub enum WsKind {
    /// raw frames written by the independent serializer, decoded by the real codec
    Decode { frames: Vec<FrameSpec> },
    /// messages encoded by the real codec in one role, decoded by the real codec in the other
    Roundtrip { msgs: Vec<MsgSpec> },
    Handshake(HsSpec),
}

#[derive(Clone, Debug, Serialize, Deserialize, PartialEq, Eq)]
pub enum MsgSpec {
    Text(u32),
    Binary(u32, u32),
    Ping(u32),
    Pong(u32),
    Close(Option<(u16, String)>),
    Fragmented { text: bool, parts: Vec<u32> },
}

#[derive(Clone, Debug, Serialize, Deserialize)]
pub struct WsScenario {
    /// decoder role: true = server (expects masked frames)
    pub server: bool,
    pub max_size: u64,
    pub kind: WsKind,
    pub cuts: Vec<usize>,
}

pub struct WsRig;

const LENS: &[u64] = &[0, 1, 2, 125, 126, 127, 200, 65_535, 65_536, 65_537, 70_000];
const MAXES: &[u64] = &[0, 1, 125, 1024, 65_536, 1 << 20];

fn bytes_of(seed: u32, len: u32) -> Vec<u8> {
    let mut x = (seed as u64) << 9 ^ 0x1357_9BDF;
    (0..len).map(|_| crate::rng::splitmix(&mut x) as u8).collect()
}

fn text_of(len: u32) -> String {
    (0..len).map(|i| (b'a' + (i % 26) as u8) as char).collect()
}

fn gen_frame(rng: &mut Rng, server: bool, max_size: u64, legal_only: bool, in_frag: &mut bool) -> FrameSpec {
    let mut f = FrameSpec {
        fin: true,
        opcode: 1,
        len: 0,
        present: 0,
        masked: server,
        mask: if rng.chance(1, 5) { [0; 4] } else { [rng.next_u64() as u8, (rng.next_u64() >> 8) as u8, rng.next_u64() as u8, rng.next_u64() as u8] },
        seed: rng.below(1 << 30) as u32,
        nonminimal: false,
    };
    // a legal next frame
    if *in_frag {
        match rng.below(4) {
            0 => {
                f.opcode = *rng.pick(&[9u8, 10]);
                f.len = *rng.pick(&[0u64, 1, 125]);
            }
            1 => {
                f.opcode = 0;
                f.fin = false;
                f.len = *rng.pick(LENS);
            }
            _ => {
                f.opcode = 0;
                f.fin = true;
                f.len = *rng.pick(LENS);
                *in_frag = false;
            }
        }
    } else {
        match rng.below(6) {
            0 => {
                f.opcode = *rng.pick(&[9u8, 10]);
                f.len = *rng.pick(&[0u64, 1, 125]);
            }
            1 => {
                f.opcode = *rng.pick(&[1u8, 2]);
                f.fin = false;
                f.len = *rng.pick(LENS);
                *in_frag = true;
            }
            _ => {
                f.opcode = *rng.pick(&[1u8, 2]);
                f.len = *rng.pick(LENS);
            }
        }
    }
    if f.len > max_size && legal_only {
        f.len = max_size.min(f.len);
    }
    if !legal_only {
        // one illegal twist
        match rng.below(9) {
            0 => f.masked = !server,
            1 => f.opcode = *rng.pick(&[3u8, 7, 11, 15]),
            2 => {
                f.opcode = *rng.pick(&[8u8, 9, 10]);
                f.fin = false;
                f.len = 2;
            }
            3 => {
                f.opcode = *rng.pick(&[8u8, 9, 10]);
                f.fin = true;
                f.len = *rng.pick(&[126u64, 200, 65_536]);
            }
            4 => {
                // continuation without start / start inside a fragmented message
                if *in_frag {
                    f.opcode = *rng.pick(&[1u8, 2]);
                    f.fin = rng.chance(1, 2);
                } else {
                    f.opcode = 0;
                }
                f.len = *rng.pick(&[0u64, 5, 200]);
            }
            5 | 6 => {
                // announces more than max_size (payload absent or partly present)
                f.opcode = *rng.pick(&[1u8, 2, 0]);
                if f.opcode == 0 && !*in_frag {
                    f.opcode = 2;
                }
                f.len = *rng.pick(&[max_size + 1, max_size + 1000, 1 << 32, 1 << 62, u64::MAX]);
            }
            _ => {}
        }
    }
    f.present = if f.len > max_size.max(70_000) { rng.below(200) } else { f.len };
    f
}

impl Rig for WsRig {
    type Sc = WsScenario;
    fn property(&self) -> &'static str {
        "C14"
    }
    fn rig_name(&self) -> &'static str {
        "WS"
    }
    fn runs(&self, tier: Tier) -> u64 {
        match tier {
            Tier::Quick => 600_000,
            Tier::Thorough => 80_000_000,
        }
    }
    fn gen(&self, rng: &mut Rng, idx: u64, _tier: Tier) -> WsScenario {
        let server = rng.chance(1, 2);
        let max_size = *rng.pick(MAXES);
        let kind = match idx % 8 {
            0 | 1 | 2 => {
                // legal frame sequence
                let n = rng.range(1, 8);
                let mut in_frag = false;
                let frames = (0..n).map(|_| gen_frame(rng, server, max_size.max(70_000), true, &mut in_frag)).collect();
                WsKind::Decode { frames }
            }
            3 | 4 => {
                // legal prefix then one illegal frame, then one more legal frame (must not be delivered)
                let n = rng.range(0, 4);
                let mut in_frag = false;
                let mut frames: Vec<FrameSpec> = (0..n).map(|_| gen_frame(rng, server, max_size.max(70_000), true, &mut in_frag)).collect();
                frames.push(gen_frame(rng, server, max_size, false, &mut in_frag));
                let mut dummy = false;
                frames.push(gen_frame(rng, server, 125, true, &mut dummy));
                WsKind::Decode { frames }
            }
            5 | 6 => {
                let n = rng.range(1, 6);
                let msgs = (0..n)
                    .map(|_| match rng.below(7) {
                        0 => MsgSpec::Text(*rng.pick(&[0u32, 1, 125, 126, 65_535, 65_536])),
                        1 | 2 => MsgSpec::Binary(rng.below(1 << 30) as u32, *rng.pick(&[0u32, 1, 125, 126, 127, 65_535, 65_536, 65_537])),
                        3 => MsgSpec::Ping(rng.below(126) as u32),
                        4 => MsgSpec::Pong(rng.below(126) as u32),
                        5 => MsgSpec::Fragmented { text: rng.chance(1, 2), parts: (0..rng.range(2, 4)).map(|_| *rng.pick(&[0u32, 1, 126, 65_536])).collect() },
                        _ => MsgSpec::Close(if rng.chance(1, 2) { Some((*rng.pick(&[1000u16, 1001, 1009, 3000, 4999]), text_of(rng.below(100) as u32))) } else { None }),
                    })
                    .collect();
                WsKind::Roundtrip { msgs }
            }
            _ => {
                let wellformed = rng.chance(1, 2);
                let mut hs = HsSpec {
                    method: "GET".into(),
                    upgrade: Some((*rng.pick(&["websocket", "WebSocket", "WEBSOCKET"])).to_string()),
                    connection: Some((*rng.pick(&["upgrade", "Upgrade", "keep-alive, Upgrade"])).to_string()),
                    version: Some((*rng.pick(&["13", "13", "8", "7"])).to_string()),
                    key: Some(base64(&bytes_of(rng.below(1 << 30) as u32, *rng.pick(&[16u32, 16, 0, 1, 30])))),
                };
                if !wellformed {
                    match rng.below(7) {
                        0 => hs.method = (*rng.pick(&["POST", "HEAD", "PUT"])).to_string(),
                        1 => hs.upgrade = None,
                        2 => hs.upgrade = Some("h2c".into()),
                        3 => hs.connection = None,
                        4 => hs.connection = Some("keep-alive".into()),
                        5 => hs.version = if rng.chance(1, 2) { None } else { Some((*rng.pick(&["12", "14", "0", "130", ""])).to_string()) },
                        _ => hs.key = None,
                    }
                }
                WsKind::Handshake(hs)
            }
        };
        // segmentation is drawn later, once the byte length is known: store seeds as relative cuts
        let ncuts = match rng.below(6) {
            0 => 0,
            1 => usize::MAX, // byte-wise (capped in run)
            _ => rng.range(1, 10),
        };
        let cuts = if ncuts == usize::MAX { vec![usize::MAX] } else { (0..ncuts).map(|_| rng.below(1 << 20) as usize).collect() };
        WsScenario { server, max_size, kind, cuts }
    }

    fn run(&self, sc: &WsScenario, _tape: Tape, narrative: bool) -> RunReport {
        // the client role masks what it encodes: the mask generator is a seam (guarded hook in
        // actix-http, --cfg actix_web_verif) seeded from the scenario, so a run repeats exactly
        {
            let mut seed: u64 = 0xcbf29ce484222325;
            for b in serde_json::to_string(sc).unwrap_or_default().bytes() {
                seed = (seed ^ b as u64).wrapping_mul(0x100000001b3);
            }
            actix_http::ws::verif::seed_masks(seed);
        }
        let mut vs = Vec::new();
        let mut narr = Vec::new();
        let mut stats: std::collections::BTreeMap<&'static str, u64> = Default::default();
        let mut hash: u64 = 0xcbf29ce484222325;
        let mut nontrivial = false;
        match &sc.kind {
            WsKind::Decode { frames } => {
                let mut wire = Vec::new();
                let mut hdr_ends = Vec::new(); // absolute offset at which each frame's header is complete
                let mut frame_ends = Vec::new();
                for f in frames {
                    let (b, hl) = serialize(f);
                    hdr_ends.push(wire.len() + hl);
                    wire.extend_from_slice(&b);
                    frame_ends.push(wire.len());
                }
                let exp = expected(frames, sc.server, sc.max_size);
                let cuts = resolve_cuts(&sc.cuts, wire.len(), &hdr_ends);
                nontrivial = frames.len() >= 2 && cuts.len() >= 1;
                let mut codec = if sc.server { Codec::new() } else { Codec::new().client_mode() }.max_size(sc.max_size as usize);
                let mut buf = BytesMut::new();
                let mut got: Vec<Result<Frame, String>> = Vec::new();
                let mut dead = false;
                let mut fed = 0usize;
                let mut delivered_payload = 0usize;
                let mut max_held = 0usize;
                // index of the frame that announces too much (if the model says so)
                let too_large_at = exp.iter().position(|e| *e == Exp::Error("too-large"));
                let mut segs: Vec<usize> = cuts.clone();
                segs.push(wire.len());
                for end in segs {
                    if dead || end <= fed {
                        continue;
                    }
                    buf.extend_from_slice(&wire[fed..end]);
                    fed = end;
                    loop {
                        match codec.decode(&mut buf) {
                            Ok(Some(fr)) => {
                                delivered_payload += frame_len(&fr);
                                got.push(Ok(fr));
                            }
                            Ok(None) => break,
                            Err(e) => {
                                got.push(Err(format!("{:?}", e)));
                                dead = true;
                                break;
                            }
                        }
                    }
                    max_held = max_held.max(buf.len());
                    // refuse-before-buffering: once the header of the oversize frame is in, the
                    // decoder must have refused
                    if let Some(k) = too_large_at {
                        if fed >= hdr_ends[k] && !dead && got.len() == k {
                            let f = &frames[k];
                            vs.push(Violation::new(
                                "C14.refuse-before-buffering",
                                format!("announced={}", if f.len > (1 << 31) { "huge" } else { "over-max" }),
                                format!("frame {} announces {} bytes with max_size {}: its {}-byte header was completely delivered ({} bytes fed, {} buffered) but the decoder keeps waiting for the payload instead of refusing", k, f.len, sc.max_size, hdr_ends[k] - if k == 0 { 0 } else { frame_ends[k - 1] }, fed, buf.len()),
                            ));
                            dead = true;
                        }
                    }
                }
                let _ = delivered_payload;
                stats.insert("decode_frames", got.len() as u64);
                // compare with the model
                for (i, e) in exp.iter().enumerate() {
                    match (e, got.get(i)) {
                        (Exp::Error(why), Some(Err(_))) => {
                            *stats.entry("illegal_rejected").or_insert(0) += 1;
                            let _ = why;
                        }
                        (Exp::Error(why), other) => {
                            if *why == "too-large" && vs.iter().any(|v| v.rule == "C14.refuse-before-buffering") {
                                continue;
                            }
                            // the stream may simply not contain the whole frame (oversize announcements)
                            let incomplete = other.is_none() && frames[i].present < frames[i].len;
                            if !incomplete || *why != "too-large" {
                                vs.push(Violation::new("C14.strict", why.to_string(), format!("frame {} ({:?}) must be rejected ({}), decoder produced {:?}", i, short(&frames[i]), why, other.map(|r| r.as_ref().map(frame_name).map_err(|e| e.clone())))));
                            } else {
                                vs.push(Violation::new("C14.refuse-before-buffering", "not-refused-at-end", format!("frame {} announces {} > max_size {} and was never refused", i, frames[i].len, sc.max_size)));
                            }
                        }
                        (Exp::CloseOrError, Some(Err(_))) | (Exp::CloseOrError, Some(Ok(Frame::Close(_)))) => {}
                        (e, Some(Ok(fr))) => {
                            if !same(e, fr) {
                                vs.push(Violation::new("C14.segmentation-free", format!("wrong-frame:{}", exp_name(e)), format!("frame {}: expected {} ({} bytes), decoder produced {} ({} bytes)", i, exp_name(e), exp_len(e), frame_name(fr), frame_len(fr))));
                            }
                            if frame_len(fr) as u64 > sc.max_size {
                                vs.push(Violation::new("C14.max-size", "", format!("delivered frame of {} bytes with max_size {}", frame_len(fr), sc.max_size)));
                            }
                        }
                        (e, other) => {
                            vs.push(Violation::new("C14.segmentation-free", format!("missing-or-error:{}", exp_name(e)), format!("frame {} ({:?}): expected {}, decoder produced {:?} (cuts {:?})", i, short(&frames[i]), exp_name(e), other.map(|r| r.as_ref().map(frame_name).map_err(|e| e.clone())), &cuts[..cuts.len().min(6)])));
                        }
                    }
                }
                if got.len() > exp.len() && exp.last() != Some(&Exp::CloseOrError) {
                    vs.push(Violation::new("C14.strict", "frame-after-end", format!("decoder produced {} items, model {}: {:?}", got.len(), exp.len(), got.last().map(|r| r.as_ref().map(frame_name).map_err(|e| e.clone())))));
                }
                for b in wire.iter().take(512) {
                    hash = (hash ^ *b as u64).wrapping_mul(0x100000001b3);
                }
                for c in &cuts {
                    hash = (hash ^ *c as u64).wrapping_mul(0x100000001b3);
                }
                hash = (hash ^ wire.len() as u64 ^ (sc.max_size << 20)).wrapping_mul(0x100000001b3);
                if narrative {
                    narr.push(format!("decoder role: {}, max_size {}, {} wire bytes, cuts {:?}", if sc.server { "server" } else { "client" }, sc.max_size, wire.len(), &cuts[..cuts.len().min(20)]));
                    for (i, f) in frames.iter().enumerate() {
                        narr.push(format!("  frame {}: {:?} header ends at {}, frame ends at {}", i, short(f), hdr_ends[i], frame_ends[i]));
                    }
                    narr.push(format!("  expected: {:?}", exp.iter().map(exp_name).collect::<Vec<_>>()));
                    narr.push(format!("  got: {:?}", got.iter().map(|r| r.as_ref().map(frame_name).map_err(|e| e.clone())).collect::<Vec<_>>()));
                }
            }
            WsKind::Roundtrip { msgs } => {
                // encoder role is the opposite of the decoder role
                let mut enc = if sc.server { Codec::new().client_mode() } else { Codec::new() }.max_size(1 << 24);
                let mut dec = if sc.server { Codec::new() } else { Codec::new().client_mode() }.max_size(1 << 24);
                let mut wire = BytesMut::new();
                let mut exp: Vec<Exp> = Vec::new();
                for m in msgs {
                    match m {
                        MsgSpec::Text(n) => {
                            let t = text_of(*n);
                            exp.push(Exp::Text(t.clone().into_bytes()));
                            let _ = enc.encode(Message::Text(t.into()), &mut wire);
                        }
                        MsgSpec::Binary(s, n) => {
                            let b = bytes_of(*s, *n);
                            exp.push(Exp::Binary(b.clone()));
                            let _ = enc.encode(Message::Binary(Bytes::from(b)), &mut wire);
                        }
                        MsgSpec::Ping(n) => {
                            let b = bytes_of(1, *n);
                            exp.push(Exp::Ping(b.clone()));
                            let _ = enc.encode(Message::Ping(Bytes::from(b)), &mut wire);
                        }
                        MsgSpec::Pong(n) => {
                            let b = bytes_of(2, *n);
                            exp.push(Exp::Pong(b.clone()));
                            let _ = enc.encode(Message::Pong(Bytes::from(b)), &mut wire);
                        }
                        MsgSpec::Close(r) => {
                            let mut p = Vec::new();
                            if let Some((c, d)) = r {
                                p.extend_from_slice(&c.to_be_bytes());
                                p.extend_from_slice(d.as_bytes());
                            }
                            exp.push(Exp::Close(p));
                            let reason = r.as_ref().map(|(c, d)| ws::CloseReason { code: ws::CloseCode::from(*c), description: if d.is_empty() { None } else { Some(d.clone()) } });
                            let _ = enc.encode(Message::Close(reason), &mut wire);
                        }
                        MsgSpec::Fragmented { text, parts } => {
                            for (i, n) in parts.iter().enumerate() {
                                let b = bytes_of(7 + i as u32, *n);
                                let item = if i == 0 {
                                    exp.push(Exp::First(*text, b.clone()));
                                    if *text { Item::FirstText(Bytes::from(b)) } else { Item::FirstBinary(Bytes::from(b)) }
                                } else if i + 1 == parts.len() {
                                    exp.push(Exp::Last(b.clone()));
                                    Item::Last(Bytes::from(b))
                                } else {
                                    exp.push(Exp::Cont(b.clone()));
                                    Item::Continue(Bytes::from(b))
                                };
                                let _ = enc.encode(Message::Continuation(item), &mut wire);
                            }
                        }
                    }
                    if matches!(m, MsgSpec::Close(_)) {
                        break;
                    }
                }
                let wire = wire.to_vec();
                // the bytes must also be well-formed for the independent parser
                if let Err(e) = ref_parse_all(&wire, sc.server) {
                    vs.push(Violation::new("C14.roundtrip", "encoder-output-malformed", e));
                }
                let cuts = resolve_cuts(&sc.cuts, wire.len(), &[]);
                nontrivial = msgs.len() >= 2 && !cuts.is_empty();
                let mut buf = BytesMut::new();
                let mut got = Vec::new();
                let mut fed = 0;
                let mut segs = cuts.clone();
                segs.push(wire.len());
                'outer: for end in segs {
                    if end <= fed {
                        continue;
                    }
                    buf.extend_from_slice(&wire[fed..end]);
                    fed = end;
                    loop {
                        match dec.decode(&mut buf) {
                            Ok(Some(fr)) => got.push(fr),
                            Ok(None) => break,
                            Err(e) => {
                                vs.push(Violation::new("C14.roundtrip", "decode-error", format!("decoding what the other role encoded failed: {:?} after {} frames", e, got.len())));
                                break 'outer;
                            }
                        }
                    }
                }
                if vs.is_empty() {
                    if got.len() != exp.len() {
                        vs.push(Violation::new("C14.roundtrip", "count", format!("{} messages encoded, {} decoded", exp.len(), got.len())));
                    }
                    for (i, (e, g)) in exp.iter().zip(got.iter()).enumerate() {
                        let ok = match (e, g) {
                            (Exp::Close(p), Frame::Close(r)) => {
                                // close payload: code + description
                                let mut q = Vec::new();
                                if let Some(r) = r {
                                    q.extend_from_slice(&u16::from(r.code).to_be_bytes());
                                    if let Some(d) = &r.description {
                                        q.extend_from_slice(d.as_bytes());
                                    }
                                }
                                &q == p
                            }
                            _ => same(e, g),
                        };
                        if !ok {
                            vs.push(Violation::new("C14.roundtrip", format!("mismatch:{}", exp_name(e)), format!("message {}: encoded {} ({} bytes), decoded {} ({} bytes)", i, exp_name(e), exp_len(e), frame_name(g), frame_len(g))));
                        }
                    }
                }
                for b in wire.iter().take(256) {
                    hash = (hash ^ *b as u64).wrapping_mul(0x100000001b3);
                }
                for c in &cuts {
                    hash = (hash ^ *c as u64).wrapping_mul(0x100000001b3);
                }
                hash = (hash ^ wire.len() as u64).wrapping_mul(0x100000001b3);
                stats.insert("roundtrip_msgs", exp.len() as u64);
                if narrative {
                    narr.push(format!("roundtrip {:?} -> {} wire bytes, cuts {:?}, decoded {:?}", msgs, wire.len(), &cuts[..cuts.len().min(20)], got.iter().map(frame_name).collect::<Vec<_>>()));
                }
            }
            WsKind::Handshake(hs) => crate::exec::run_sim(async {
                let mut req = format!("{} /chat HTTP/1.1\r\nhost: sim\r\n", hs.method);
                if let Some(u) = &hs.upgrade {
                    req.push_str(&format!("upgrade: {}\r\n", u));
                }
                if let Some(c) = &hs.connection {
                    req.push_str(&format!("connection: {}\r\n", c));
                }
                if let Some(v) = &hs.version {
                    req.push_str(&format!("sec-websocket-version: {}\r\n", v));
                }
                if let Some(k) = &hs.key {
                    req.push_str(&format!("sec-websocket-key: {}\r\n", k));
                }
                req.push_str("\r\n");
                let wire = req.into_bytes();
                let cuts = resolve_cuts(&sc.cuts, wire.len(), &[]);
                nontrivial = !cuts.is_empty();
                // through the real HTTP/1 request decoder, under segmentation
                let mut codec = actix_http::h1::Codec::default();
                let mut buf = BytesMut::new();
                let mut fed = 0;
                let mut head = None;
                let mut segs = cuts.clone();
                segs.push(wire.len());
                for end in segs {
                    if end <= fed {
                        continue;
                    }
                    buf.extend_from_slice(&wire[fed..end]);
                    fed = end;
                    match codec.decode(&mut buf) {
                        Ok(Some(actix_http::h1::Message::Item(r))) => {
                            head = Some(r);
                            break;
                        }
                        Ok(_) => {}
                        Err(e) => {
                            vs.push(Violation::new("C14.handshake", "request-parse-error", format!("{:?}", e)));
                            break;
                        }
                    }
                }
                let tok = |s: &Option<String>, t: &str| s.as_ref().map(|v| v.split(',').any(|p| p.trim().eq_ignore_ascii_case(t))).unwrap_or(false);
                let well = hs.method == "GET" && tok(&hs.upgrade, "websocket") && tok(&hs.connection, "upgrade") && matches!(hs.version.as_deref(), Some("13") | Some("8") | Some("7")) && hs.key.is_some();
                if let Some(r) = head {
                    match ws::handshake(r.head()) {
                        Ok(mut b) => {
                            if !well {
                                vs.push(Violation::new("C14.handshake", "accepted-malformed", format!("{:?} accepted", hs)));
                            } else {
                                let res = b.finish();
                                let want = base64(&sha1(format!("{}258EAFA5-E914-47DA-95CA-C5AB0DC85B11", hs.key.clone().unwrap().trim()).as_bytes()));
                                let gotk = res.headers().get("sec-websocket-accept").map(|v| String::from_utf8_lossy(v.as_bytes()).to_string());
                                if res.status().as_u16() != 101 || gotk.as_deref() != Some(want.as_str()) {
                                    vs.push(Violation::new("C14.handshake", "wrong-accept", format!("status {}, accept {:?}, expected {}", res.status(), gotk, want)));
                                }
                                *stats.entry("handshake_accepted").or_insert(0) += 1;
                            }
                        }
                        Err(e) => {
                            if well {
                                vs.push(Violation::new("C14.handshake", "rejected-wellformed", format!("{:?} rejected: {:?}", hs, e)));
                            }
                            *stats.entry("handshake_rejected").or_insert(0) += 1;
                        }
                    }
                }
                for b in wire.iter() {
                    hash = (hash ^ *b as u64).wrapping_mul(0x100000001b3);
                }
                for c in &cuts {
                    hash = (hash ^ *c as u64).wrapping_mul(0x100000001b3);
                }
            }),
        }
        RunReport {
            violations: vs,
            trace_hash: hash,
            stats,
            nontrivial,
            states: vec![],
            sim_ms: 0,
            steps: 0,
            tape: vec![],
            narrative: narr,
        }
    }

    fn shrink(&self, sc: &WsScenario) -> Vec<WsScenario> {
        let mut v = Vec::new();
        if !sc.cuts.is_empty() {
            let mut s = sc.clone();
            s.cuts.clear();
            v.push(s);
        }
        if let WsKind::Decode { frames } = &sc.kind {
            for i in 0..frames.len() {
                if frames.len() > 1 {
                    let mut f = frames.clone();
                    f.remove(i);
                    let mut s = sc.clone();
                    s.kind = WsKind::Decode { frames: f };
                    v.push(s);
                }
            }
        }
        v
    }

    fn nontrivial_rule(&self) -> &'static str {
        "a run is one frame sequence (legal, or legal prefix + one illegal frame + one more frame), message list (roundtrip) or upgrade request (handshake) for one decoder role and max_size under one read segmentation; non-trivial = at least two frames/messages and at least one cut (for the handshake: at least one cut); distinct = distinct (wire bytes, cuts, max_size)"
    }
    fn real_components(&self) -> Vec<&'static str> {
        vec!["actix_http::ws::Codec (Decoder and Encoder, both roles)", "ws::Parser::parse / write_message", "ws::mask::apply_mask", "ws::handshake / hash_key", "h1::Codec request decoder (handshake requests)"]
    }
    fn stub_components(&self) -> Vec<&'static str> {
        vec!["byte feeder standing in for Framed's read loop (append a segment, decode until None)", "independent RFC 6455 frame serializer / parser / fragmentation state machine", "independent SHA-1 and base64"]
    }
    fn assumptions(&self) -> Vec<&'static str> {
        vec!["RSV bits are always 0 (no extension negotiated)", "an over-long Close frame may be answered by an error or by a bare Close (actix morphs it deliberately)"]
    }
    fn expected_probes(&self) -> Vec<&'static str> {
        vec!["illegal_rejected", "roundtrip_msgs", "handshake_accepted", "handshake_rejected"]
    }
}

fn resolve_cuts(raw: &[usize], len: usize, interesting: &[usize]) -> Vec<usize> {
    if len < 2 {
        return vec![];
    }
    let mut v: Vec<usize> = if raw.first() == Some(&usize::MAX) {
        (1..len.min(3000)).collect()
    } else {
        raw.iter()
            .enumerate()
            .map(|(i, r)| {
                if !interesting.is_empty() && i % 2 == 0 {
                    // around a header end
                    let h = interesting[r % interesting.len()];
                    (h + (r >> 8) % 5).saturating_sub(2).max(1)
                } else {
                    1 + r % (len - 1)
                }
            })
            .collect()
    };
    v.retain(|c| *c > 0 && *c < len);
    v.sort();
    v.dedup();
    v
}

fn short(f: &FrameSpec) -> String {
    format!("fin={} op={} len={} masked={}", f.fin as u8, f.opcode, f.len, f.masked)
}

fn frame_name(f: &Frame) -> String {
    match f {
        Frame::Text(_) => "Text".into(),
        Frame::Binary(_) => "Binary".into(),
        Frame::Continuation(Item::FirstText(_)) => "FirstText".into(),
        Frame::Continuation(Item::FirstBinary(_)) => "FirstBinary".into(),
        Frame::Continuation(Item::Continue(_)) => "Continue".into(),
        Frame::Continuation(Item::Last(_)) => "Last".into(),
        Frame::Ping(_) => "Ping".into(),
        Frame::Pong(_) => "Pong".into(),
        Frame::Close(_) => "Close".into(),
    }
}

fn frame_len(f: &Frame) -> usize {
    match f {
        Frame::Text(b) | Frame::Binary(b) | Frame::Ping(b) | Frame::Pong(b) => b.len(),
        Frame::Continuation(Item::FirstText(b)) | Frame::Continuation(Item::FirstBinary(b)) | Frame::Continuation(Item::Continue(b)) | Frame::Continuation(Item::Last(b)) => b.len(),
        Frame::Close(_) => 0,
    }
}

fn exp_name(e: &Exp) -> String {
    match e {
        Exp::Text(_) => "Text".into(),
        Exp::Binary(_) => "Binary".into(),
        Exp::First(true, _) => "FirstText".into(),
        Exp::First(false, _) => "FirstBinary".into(),
        Exp::Cont(_) => "Continue".into(),
        Exp::Last(_) => "Last".into(),
        Exp::Ping(_) => "Ping".into(),
        Exp::Pong(_) => "Pong".into(),
        Exp::Close(_) => "Close".into(),
        Exp::CloseOrError => "CloseOrError".into(),
        Exp::Error(w) => format!("Error({})", w),
    }
}

fn exp_len(e: &Exp) -> usize {
    match e {
        Exp::Text(b) | Exp::Binary(b) | Exp::First(_, b) | Exp::Cont(b) | Exp::Last(b) | Exp::Ping(b) | Exp::Pong(b) | Exp::Close(b) => b.len(),
        _ => 0,
    }
}

fn same(e: &Exp, f: &Frame) -> bool {
    match (e, f) {
        (Exp::Text(a), Frame::Text(b)) | (Exp::Binary(a), Frame::Binary(b)) | (Exp::Ping(a), Frame::Ping(b)) | (Exp::Pong(a), Frame::Pong(b)) => a[..] == b[..],
        (Exp::First(true, a), Frame::Continuation(Item::FirstText(b))) | (Exp::First(false, a), Frame::Continuation(Item::FirstBinary(b))) | (Exp::Cont(a), Frame::Continuation(Item::Continue(b))) | (Exp::Last(a), Frame::Continuation(Item::Last(b))) => a[..] == b[..],
        (Exp::Close(p), Frame::Close(r)) => {
            // compare code and description
            if p.len() < 2 {
                r.is_none()
            } else {
                match r {
                    Some(r) => u16::from(r.code) == u16::from_be_bytes([p[0], p[1]]) && r.description.as_deref().map(|d| d.as_bytes().to_vec()).unwrap_or_default() == String::from_utf8_lossy(&p[2..]).as_bytes().to_vec(),
                    None => false,
                }
            }
        }
        _ => false,
    }
}

/// Independent parser used to validate what the real encoder wrote.
fn ref_parse_all(wire: &[u8], decoder_is_server: bool) -> Result<usize, String> {
    let mut at = 0;
    let mut n = 0;
    while at < wire.len() {
        if wire.len() - at < 2 {
            return Err("truncated header".into());
        }
        let b0 = wire[at];
        let b1 = wire[at + 1];
        if b0 & 0x70 != 0 {
            return Err("RSV bits set".into());
        }
        let masked = b1 & 0x80 != 0;
        if masked != decoder_is_server {
            return Err(format!("frame {}: mask bit {} wrong for the sending role", n, masked));
        }
        let mut p = at + 2;
        let l7 = (b1 & 0x7F) as u64;
        let len = if l7 == 126 {
            let v = u16::from_be_bytes([wire[p], wire[p + 1]]) as u64;
            p += 2;
            if v < 126 {
                return Err("non-minimal 16-bit length".into());
            }
            v
        } else if l7 == 127 {
            let mut a = [0u8; 8];
            a.copy_from_slice(&wire[p..p + 8]);
            p += 8;
            let v = u64::from_be_bytes(a);
            if v <= 65_535 {
                return Err("non-minimal 64-bit length".into());
            }
            v
        } else {
            l7
        };
        if masked {
            p += 4;
        }
        if wire.len() < p + len as usize {
            return Err("truncated payload".into());
        }
        if b0 & 0x0F >= 8 && (len > 125 || b0 & 0x80 == 0) {
            return Err("illegal control frame written".into());
        }
        at = p + len as usize;
        n += 1;
    }
    Ok(n)
}
