//! Rig FZ (C19): peer-controlled bytes, damaged in transit. Valid messages from the other rigs'
//! independent producers (HTTP/1 requests for an `App` that exercises every parser the framework
//! applies to a request, WebSocket frame sequences, HTTP/1 responses for the awc client) are
//! corrupted by a generated fault sequence (bit flips, truncation, length-field extremes, duplicated
//! and oversized fields, random bytes) and delivered under a generated segmentation to the real
//! code, built with overflow checks and debug assertions. Oracle: no panic anywhere (including in
//! tasks spawned on the runtime), and the connection/codec/client finishes within a step and
//! virtual-time budget once the peer has closed.

use std::{
    cell::RefCell,
    collections::{BTreeMap, HashMap},
    path::PathBuf,
    rc::Rc,
    sync::OnceLock,
    time::Duration,
};

use actix_http::{HttpService, KeepAlive, Protocol};
use actix_service::{map_config, Service, ServiceFactory};
use actix_web::{
    dev::AppConfig,
    http::header::{self, Header},
    web, App, HttpMessage, HttpRequest, HttpResponse,
};
use bytes::BytesMut;
use futures_util::StreamExt as _;
use serde::{Deserialize, Serialize};
use tokio_util::codec::{Decoder, Encoder};

use crate::{
    batch::{Rig, RunReport, Tier, Violation},
    cl,
    exec::{run_sim, Exec, Idle},
    mp,
    rng::{Rng, Tape},
    sock::{new_socket, Clock, ServerEnd, SockPlan},
    ws,
};

#[derive(Clone, Copy, Debug, Serialize, Deserialize, PartialEq, Eq)]
pub enum Target {
    H1App,
    WsServer,
    WsClient,
    Client,
}

#[derive(Clone, Debug, Serialize, Deserialize)]
pub enum Mut {
    Flip { at_pm: u32, bit: u8 },
    Truncate { at_pm: u32 },
    SetByte { at_pm: u32, val: u8 },
    Insert { at_pm: u32, bytes: Vec<u8> },
    Dup { from_pm: u32, len: u32, to_pm: u32 },
    /// replace the nth run of ASCII digits (or hex digits in a chunk-size position) by this text
    Num { nth: u32, val: String },
    Repeat { at_pm: u32, byte: u8, count: u32 },
}

#[derive(Clone, Debug, Serialize, Deserialize)]
pub struct FzScenario {
    pub target: Target,
    pub base: u64,
    /// 0 = anywhere, 1 = head (up to the first empty line), 2 = after the head
    pub region: u8,
    pub muts: Vec<Mut>,
    pub cuts: Vec<u32>,
    pub ws_max_size: u32,
}

const EXTREMES: &[&str] = &["0", "1", "00", "-1", "+1", "255", "256", "65535", "65536", "2147483647", "2147483648", "4294967295", "4294967296", "9223372036854775807", "9223372036854775808", "18446744073709551615", "18446744073709551616", "99999999999999999999999999", "0x10", "1e9", "7fffffffffffffff", "ffffffffffffffff", "10000000000000000", "NaN", "nan", "inf", "-inf", "infinity", "1e999", "1e-999", "0.0000000001", "1.0001", "1.", "0.9999999999999999999", "1.5", "2", "٣"];

fn pos(pm: u32, lo: usize, hi: usize) -> usize {
    if hi <= lo {
        return lo;
    }
    lo + ((pm as usize).min(1000) * (hi - lo)) / 1000
}

fn apply(mut b: Vec<u8>, region: u8, muts: &[Mut]) -> Vec<u8> {
    for m in muts {
        let head_end = b.windows(4).position(|w| w == b"\r\n\r\n").map(|p| p + 4).unwrap_or(b.len());
        let (lo, hi) = match region {
            1 => (0, head_end),
            2 => (head_end.min(b.len()), b.len()),
            _ => (0, b.len()),
        };
        match m {
            Mut::Flip { at_pm, bit } => {
                let p = pos(*at_pm, lo, hi);
                if p < b.len() {
                    b[p] ^= 1 << (bit % 8);
                }
            }
            Mut::Truncate { at_pm } => {
                let p = pos(*at_pm, lo, hi);
                b.truncate(p);
            }
            Mut::SetByte { at_pm, val } => {
                let p = pos(*at_pm, lo, hi);
                if p < b.len() {
                    b[p] = *val;
                }
            }
            Mut::Insert { at_pm, bytes } => {
                let p = pos(*at_pm, lo, hi).min(b.len());
                let tail = b.split_off(p);
                b.extend_from_slice(bytes);
                b.extend_from_slice(&tail);
            }
            Mut::Dup { from_pm, len, to_pm } => {
                let f = pos(*from_pm, lo, hi).min(b.len());
                let e = (f + *len as usize).min(b.len());
                let piece = b[f..e].to_vec();
                let p = pos(*to_pm, lo, hi).min(b.len());
                let tail = b.split_off(p);
                b.extend_from_slice(&piece);
                b.extend_from_slice(&tail);
            }
            Mut::Num { nth, val } => {
                // runs of ASCII digits inside the region
                let mut runs: Vec<(usize, usize)> = Vec::new();
                let mut i = lo;
                while i < hi.min(b.len()) {
                    if b[i].is_ascii_digit() {
                        let s = i;
                        while i < hi.min(b.len()) && b[i].is_ascii_digit() {
                            i += 1;
                        }
                        runs.push((s, i));
                        // a decimal number (q-values, HTTP version, float fields) also counts as one token
                        if i + 1 < hi.min(b.len()) && b[i] == b'.' && b[i + 1].is_ascii_digit() {
                            let mut j = i + 1;
                            while j < hi.min(b.len()) && b[j].is_ascii_digit() {
                                j += 1;
                            }
                            runs.push((s, j));
                        }
                    } else {
                        i += 1;
                    }
                }
                if !runs.is_empty() {
                    let (s, e) = runs[*nth as usize % runs.len()];
                    let tail = b.split_off(e);
                    b.truncate(s);
                    b.extend_from_slice(val.as_bytes());
                    b.extend_from_slice(&tail);
                }
            }
            Mut::Repeat { at_pm, byte, count } => {
                let p = pos(*at_pm, lo, hi).min(b.len());
                let tail = b.split_off(p);
                b.extend(std::iter::repeat(*byte).take(*count as usize));
                b.extend_from_slice(&tail);
            }
        }
    }
    b
}

// ------------------------------------------------------------------------------------------
// base messages

const HDR_SAMPLES: &[(&str, &[&str])] = &[
    ("accept", &["text/html, application/xhtml+xml;q=0.9, */*;q=0.8", "*/*", "text/*;q=0.300, text/plain;format=flowed"]),
    ("accept-charset", &["utf-8, iso-8859-1;q=0.5", "*"]),
    ("accept-encoding", &["gzip, deflate;q=0.5, br, identity;q=0", "*;q=0", "zstd"]),
    ("accept-language", &["da, en-gb;q=0.8, en;q=0.7, *", "zh-Hant-TW"]),
    ("cache-control", &["no-cache, max-age=3600, private, s-maxage=10, foo=bar", "max-stale=5, min-fresh=1"]),
    ("content-disposition", &["form-data; name=\"f\"; filename=\"a.txt\"", "attachment; filename*=UTF-8''%e2%82%ac%20rates", "inline; filename=\"a\\\"b\"; size=12"]),
    ("content-language", &["en, de-CH"]),
    ("content-range", &["bytes 0-499/1234", "bytes */1234", "bytes 500-999/*", "items 1-2/3"]),
    ("date", &["Sun, 06 Nov 1994 08:49:37 GMT", "Sunday, 06-Nov-94 08:49:37 GMT", "Sun Nov  6 08:49:37 1994"]),
    ("expires", &["Thu, 01 Dec 1994 16:00:00 GMT", "0"]),
    ("last-modified", &["Tue, 15 Nov 1994 12:45:26 GMT"]),
    ("if-modified-since", &["Sat, 29 Oct 1994 19:43:31 GMT", "Fri, 31 Dec 9999 23:59:59 GMT"]),
    ("if-unmodified-since", &["Sat, 29 Oct 1994 19:43:31 GMT"]),
    ("etag", &["\"xyzzy\"", "W/\"xyzzy\"", "\"\""]),
    ("if-match", &["\"xyzzy\", \"r2d2xxxx\"", "*"]),
    ("if-none-match", &["W/\"xyzzy\", \"r2d2xxxx\", W/\"c3piozzzz\"", "*"]),
    ("if-range", &["\"xyzzy\"", "Sat, 29 Oct 1994 19:43:31 GMT"]),
    ("range", &["bytes=0-499", "bytes=500-", "bytes=-500", "bytes=0-0,-1", "bytes=9223372036854775807-", "bytes=1-2,4-5,7-", "items=1-2"]),
    ("forwarded", &["for=192.0.2.60;proto=http;by=203.0.113.43;host=example.com", "for=\"[2001:db8:cafe::17]:4711\", for=unknown"]),
    ("x-forwarded-for", &["203.0.113.195, 70.41.3.18, 150.172.238.178"]),
    ("x-forwarded-host", &["id42.example-cdn.com"]),
    ("x-forwarded-proto", &["https"]),
    ("cookie", &["a=b; c=d%20e; f", "SID=31d4d96e407aad42; lang=en-US"]),
    ("expect", &["100-continue"]),
    ("connection", &["keep-alive", "close", "upgrade"]),
    ("upgrade", &["websocket"]),
    ("sec-websocket-key", &["dGhlIHNhbXBsZSBub25jZQ=="]),
    ("sec-websocket-version", &["13", "8"]),
    ("origin", &["http://example.com"]),
    ("user-agent", &["sim/1.0"]),
];

fn base_http_request(seed: u64) -> Vec<u8> {
    let mut rng = Rng::new(seed);
    let ids = ["1", "42", "abc", "x%20y", "%41", "a.b", "..", "%2e%2e", "a//b", "%ff", "\u{e9}"];
    let (method, target, body, ctype): (&str, String, Vec<u8>, Option<String>) = match rng.below(12) {
        0 => ("GET", format!("/h?x={}", rng.below(100)), vec![], None),
        1 => ("GET", format!("/q?a={}&b={}&c[]=1&c[]=2&d=%zz&e=%F0%9F%98%80&=&f", rng.below(1000), rng.pick(&ids)), vec![], None),
        2 => ("GET", format!("/p/{}/{}", rng.pick(&ids), rng.pick(&ids)), vec![], None),
        3 => ("GET", format!("/n/{}/tail/{}", rng.below(100000), rng.pick(&ids)), vec![], None),
        4 => ("POST", "/j".into(), r#"{"a":[1,2,{"b":"c"}],"d":1e400,"e":"😀","f":-0.0,"g":12345678901234567890}"#.as_bytes().to_vec(), Some("application/json; charset=utf-8".into())),
        5 => ("POST", "/u".into(), b"a=1&b=%zz&c[]=2&d=%F0%9F%98%80&e=+x+&f".to_vec(), Some("application/x-www-form-urlencoded".into())),
        6 | 7 => {
            let sc = mp::MpRig.gen(&mut rng, seed % 97, Tier::Quick);
            let built = mp::build(&sc);
            ("POST", "/m".into(), built.body, Some(format!("multipart/form-data; boundary=\"{}\"", sc.boundary)))
        }
        8 => ("POST", "/s".into(), "gr\u{fc}\u{df}e \u{20ac} text".as_bytes().to_vec(), Some(format!("text/plain; charset={}", rng.pick(&["utf-8", "iso-8859-1", "utf-16", "shift_jis", "x-unknown"])))),
        9 => ("GET", format!("/f/{}", rng.pick(&["a.txt", "empty.bin", "big.bin", "missing", "../a.txt", "sub/x.html", "%2e%2e/a.txt", "a.txt/"])), vec![], None),
        10 => ("GET", "/ws".into(), vec![], None),
        _ => ("PUT", "/b".into(), (0..rng.range(0, 3000)).map(|i| (i % 251) as u8).collect(), Some("application/octet-stream".into())),
    };
    let mut s = format!("{} {} HTTP/1.1\r\nhost: sim.test:8080\r\n", method, target);
    if let Some(ct) = &ctype {
        s.push_str(&format!("content-type: {}\r\n", ct));
    }
    let n = rng.range(0, 7);
    for _ in 0..n {
        let (name, vals) = rng.pick(HDR_SAMPLES);
        s.push_str(&format!("{}: {}\r\n", name, rng.pick(vals)));
    }
    if target == "/ws" {
        s.push_str("connection: upgrade\r\nupgrade: websocket\r\nsec-websocket-version: 13\r\nsec-websocket-key: dGhlIHNhbXBsZSBub25jZQ==\r\n");
    }
    let chunked = !body.is_empty() && rng.chance(1, 3);
    let mut out;
    if chunked {
        s.push_str("transfer-encoding: chunked\r\n\r\n");
        out = s.into_bytes();
        let csize = rng.range(1, 700);
        for c in body.chunks(csize) {
            out.extend_from_slice(format!("{:x}\r\n", c.len()).as_bytes());
            out.extend_from_slice(c);
            out.extend_from_slice(b"\r\n");
        }
        out.extend_from_slice(b"0\r\n\r\n");
    } else {
        if !body.is_empty() || method != "GET" {
            s.push_str(&format!("content-length: {}\r\n", body.len()));
        }
        s.push_str("\r\n");
        out = s.into_bytes();
        out.extend_from_slice(&body);
    }
    // sometimes a second, plain request follows on the same connection
    if rng.chance(1, 3) {
        out.extend_from_slice(b"GET /h HTTP/1.1\r\nhost: sim.test\r\nrange: bytes=0-1\r\n\r\n");
    }
    out
}

fn base_ws_frames(seed: u64, to_server: bool) -> Vec<u8> {
    let mut rng = Rng::new(seed);
    let n = rng.range(1, 6);
    let mut out = Vec::new();
    for _ in 0..n {
        let len = *rng.pick(&[0u64, 1, 5, 125, 126, 127, 300, 65_535, 65_536, 70_000]);
        // sometimes the header announces an extreme length and little or nothing follows
        let (len, present) = if rng.chance(1, 6) { (*rng.pick(&[1u64 << 31, 1 << 32, (1 << 63) - 1, 1 << 63, u64::MAX - 14, u64::MAX - 1, u64::MAX]), rng.below(12)) } else { (len, len) };
        let spec = ws::FrameSpec {
            fin: rng.chance(3, 4),
            opcode: *rng.pick(&[0u8, 1, 2, 8, 9, 10, 1, 2]),
            len,
            present,
            masked: to_server,
            mask: [rng.below(256) as u8, rng.below(256) as u8, rng.below(256) as u8, rng.below(256) as u8],
            seed: rng.below(1 << 30) as u32,
            nonminimal: rng.chance(1, 10),
        };
        out.extend_from_slice(&ws::serialize(&spec).0);
    }
    out
}

fn base_client_req(seed: u64) -> cl::ClReq {
    let mut rng = Rng::new(seed);
    cl::ClReq {
        start_after: None,
        head_method: rng.chance(1, 8),
        http10: rng.chance(1, 6),
        status: *rng.pick(&[200u16, 200, 404, 204, 304, 100, 101, 301]),
        framing: *rng.pick(&[cl::Framing::Length, cl::Framing::Chunked, cl::Framing::Chunked, cl::Framing::UntilClose]),
        conn_hdr: *rng.pick(&[cl::ConnHdr::Absent, cl::ConnHdr::Close, cl::ConnHdr::KeepAlive]),
        body_len: *rng.pick(&[0usize, 1, 17, 1000, 9000]),
        chunk: *rng.pick(&[1usize, 7, 100, 4096]),
        cut_at: None,
        close_after: true,
        consume: cl::Consume::All,
        raw: None,
    }
}

// ------------------------------------------------------------------------------------------
// the application under test

fn files_dir() -> &'static PathBuf {
    static DIR: OnceLock<PathBuf> = OnceLock::new();
    DIR.get_or_init(|| {
        let d = std::env::temp_dir().join(format!("verif-fz-{}", std::process::id()));
        let _ = std::fs::create_dir_all(d.join("sub"));
        let _ = std::fs::write(d.join("a.txt"), vec![b'a'; 1234]);
        let _ = std::fs::write(d.join("empty.bin"), b"");
        let _ = std::fs::write(d.join("big.bin"), vec![7u8; 70_000]);
        let _ = std::fs::write(d.join("sub").join("x.html"), b"<html></html>");
        d
    })
}

fn typed_headers(req: &HttpRequest) -> usize {
    let mut ok = 0usize;
    macro_rules! p {
        ($($t:ty),*) => { $( if <$t as Header>::parse(req).is_ok() { ok += 1; } )* };
    }
    p!(
        header::Accept,
        header::AcceptCharset,
        header::AcceptEncoding,
        header::AcceptLanguage,
        header::Allow,
        header::CacheControl,
        header::ContentDisposition,
        header::ContentLanguage,
        header::ContentLength,
        header::ContentRange,
        header::ContentType,
        header::Date,
        header::ETag,
        header::Expires,
        header::IfMatch,
        header::IfModifiedSince,
        header::IfNoneMatch,
        header::IfRange,
        header::IfUnmodifiedSince,
        header::LastModified,
        header::Range
    );
    {
        let ci = req.connection_info();
        ok += ci.host().len() + ci.scheme().len() + ci.realip_remote_addr().map(|s| s.len()).unwrap_or(0) + ci.peer_addr().map(|s| s.len()).unwrap_or(0);
    }
    if let Ok(c) = req.cookies() {
        ok += c.len();
    }
    ok += req.content_type().len();
    ok += req.mime_type().map(|m| m.is_some() as usize).unwrap_or(0);
    ok += req.encoding().map(|_| 1).unwrap_or(0);
    ok += req.chunked().map(|c| c as usize).unwrap_or(0);
    ok += req.uri().to_string().len();
    ok += req.url_for("named", ["1", "2"]).map(|u| u.as_str().len()).unwrap_or(0);
    // `HttpRequest::full_url` documents that it panics on a malformed host: not called here
    if let Ok(q) = web::Query::<HashMap<String, String>>::from_query(req.query_string()) {
        ok += q.len();
    }
    #[derive(Deserialize)]
    struct Typed {
        a: Option<u32>,
        b: Option<String>,
        #[serde(default)]
        c: Vec<String>,
    }
    if let Ok(q) = web::Query::<Typed>::from_query(req.query_string()) {
        ok += q.a.unwrap_or(0) as usize % 3 + q.b.as_ref().map(|s| s.len()).unwrap_or(0) + q.c.len();
    }
    ok
}

async fn h_headers(req: HttpRequest) -> HttpResponse {
    let n = typed_headers(&req);
    HttpResponse::Ok().body(format!("{}", n))
}

async fn h_path(req: HttpRequest, p: Result<web::Path<(String, String)>, actix_web::Error>, n: Option<web::Path<(u32, String)>>) -> HttpResponse {
    let mut k = typed_headers(&req);
    k += p.map(|p| p.0.len() + p.1.len()).unwrap_or(0);
    k += n.map(|p| p.0 as usize % 7 + p.1.len()).unwrap_or(0);
    k += req.match_info().iter().map(|(a, b)| a.len() + b.len()).sum::<usize>();
    k += req.match_pattern().map(|s| s.len()).unwrap_or(0);
    HttpResponse::Ok().body(format!("{}", k))
}

async fn h_json(req: HttpRequest, j: Result<web::Json<serde_json::Value>, actix_web::Error>) -> HttpResponse {
    let k = typed_headers(&req) + j.map(|v| v.to_string().len()).unwrap_or(0);
    HttpResponse::Ok().body(format!("{}", k))
}

async fn h_form(req: HttpRequest, f: Result<web::Form<HashMap<String, String>>, actix_web::Error>) -> HttpResponse {
    let k = typed_headers(&req) + f.map(|v| v.len()).unwrap_or(0);
    HttpResponse::Ok().body(format!("{}", k))
}

async fn h_string(req: HttpRequest, s: Result<String, actix_web::Error>) -> HttpResponse {
    let k = typed_headers(&req) + s.map(|v| v.len()).unwrap_or(0);
    HttpResponse::Ok().body(format!("{}", k))
}

async fn h_bytes(req: HttpRequest, b: Result<web::Bytes, actix_web::Error>) -> HttpResponse {
    let k = typed_headers(&req) + b.map(|v| v.len()).unwrap_or(0);
    HttpResponse::Ok().body(format!("{}", k))
}

async fn h_multipart(req: HttpRequest, mut m: actix_multipart::Multipart) -> HttpResponse {
    let mut k = typed_headers(&req);
    let mut fields = 0;
    while let Some(item) = m.next().await {
        match item {
            Ok(mut field) => {
                fields += 1;
                k += field.name().map(|s| s.len()).unwrap_or(0);
                k += field.content_disposition().map(|cd| cd.parameters.len()).unwrap_or(0);
                k += field.content_type().map(|m| m.essence_str().len()).unwrap_or(0);
                while let Some(chunk) = field.next().await {
                    match chunk {
                        Ok(c) => k += c.len(),
                        Err(_) => break,
                    }
                }
            }
            Err(_) => break,
        }
        if fields > 64 {
            break;
        }
    }
    HttpResponse::Ok().body(format!("{}", k))
}

async fn h_file(req: HttpRequest, tail: web::Path<String>) -> HttpResponse {
    let mut k = typed_headers(&req);
    // the traversal-safe path type of actix-files, then NamedFile's conditional/range arithmetic
    let rel: Result<actix_files::PathBufWrap, _> = tail.as_str().parse();
    if let Ok(rel) = rel {
        let p = files_dir().join(rel.as_ref());
        if let Ok(nf) = actix_files::NamedFile::open(&p) {
            let res = nf.use_etag(true).use_last_modified(true).into_response(&req);
            k += res.status().as_u16() as usize;
            k += res.headers().len();
            if let Some(cr) = res.headers().get("content-range") {
                k += cr.len();
            }
            // the body (a file reader that uses the blocking pool) is dropped unread
        }
    }
    HttpResponse::Ok().body(format!("{}", k))
}

async fn h_ws(req: HttpRequest) -> HttpResponse {
    let k = typed_headers(&req);
    match actix_http::ws::handshake(req.head()) {
        Ok(mut b) => b.finish().map_into_boxed_body().into(),
        Err(_) => HttpResponse::BadRequest().body(format!("{}", k)),
    }
}

async fn make_handler() -> impl Service<(ServerEnd, Protocol, Option<std::net::SocketAddr>), Response = (), Error = actix_http::error::DispatchError> {
    let app = || {
        App::new()
            .app_data(web::JsonConfig::default().limit(4096))
            .app_data(web::PayloadConfig::new(8192))
            .service(web::resource("/h").to(h_headers))
            .service(web::resource("/q").to(h_headers))
            .service(web::resource("/p/{a}/{b}").name("named").to(h_path))
            .service(web::resource("/n/{n}/tail/{rest:.*}").to(h_path))
            .service(web::resource("/j").to(h_json))
            .service(web::resource("/u").to(h_form))
            .service(web::resource("/s").to(h_string))
            .service(web::resource("/b").to(h_bytes))
            .service(web::resource("/m").to(h_multipart))
            .service(web::resource("/f/{tail:.*}").to(h_file))
            .service(web::resource("/ws").to(h_ws))
            .default_service(web::to(h_headers))
    };
    let factory = HttpService::<ServerEnd, _, _>::build()
        .keep_alive(KeepAlive::Timeout(Duration::from_secs(1)))
        .client_request_timeout(Duration::from_secs(1))
        .client_disconnect_timeout(Duration::from_secs(1))
        .finish(map_config(app(), |_| AppConfig::default()));
    factory.new_service(()).await.expect("service init")
}

#[derive(Default)]
struct Out {
    steps: u64,
    sim_ms: u64,
    stuck: Option<String>,
    tape: Vec<u32>,
    stats: BTreeMap<&'static str, u64>,
    out_bytes: usize,
    log: Vec<String>,
}

async fn run_h1(bytes: Vec<u8>, cuts: Vec<u32>, tape: Tape) -> Out {
    let tape = Rc::new(RefCell::new(tape));
    let clock = Clock::new();
    let handler = make_handler().await;
    tokio::task::yield_now().await;
    tokio::task::yield_now().await;
    let (se, ss) = new_socket(SockPlan::default(), tape.clone(), clock.clone());
    let mut ex = Exec::new();
    let fut = handler.call((se, Protocol::Http1, Some("192.0.2.1:4711".parse().unwrap())));
    let t = ex.spawn("conn", async move {
        let _ = fut.await;
    });
    let mut out = Out::default();
    let mut off = 0usize;
    let mut ci = 0usize;
    // phase 0: deliver; 1: wait; 2: half-closed; 3: reset
    let mut phase = 0;
    loop {
        out.steps += 1;
        if out.steps > 300_000 + 8 * bytes.len() as u64 {
            out.stuck = Some("busy-loop: step budget exhausted".into());
            break;
        }
        tokio::task::yield_now().await;
        if ex.unfinished().is_empty() {
            break;
        }
        let runnable = ex.runnable();
        if !runnable.is_empty() {
            for r in runnable {
                ex.poll_task(r);
                clock.tick();
            }
            continue;
        }
        match phase {
            0 => {
                if off < bytes.len() {
                    let n = (cuts.get(ci % cuts.len().max(1)).copied().unwrap_or(u32::MAX) as usize).max(1).min(bytes.len() - off);
                    ci += 1;
                    ss.st.borrow_mut().deliver(&bytes[off..off + n]);
                    off += n;
                    *out.stats.entry("segments_delivered").or_insert(0) += 1;
                } else {
                    phase = 1;
                }
            }
            1 => {
                // everything delivered: let timers (request timeout, keep-alive) run their course
                let dl = ex.now() + Duration::from_secs(4);
                if ex.idle_until(dl).await == Idle::Deadline {
                    ss.st.borrow_mut().half_close();
                    phase = 2;
                }
            }
            2 => {
                let dl = ex.now() + Duration::from_secs(6);
                if ex.idle_until(dl).await == Idle::Deadline {
                    ss.st.borrow_mut().reset_conn();
                    ss.st.borrow_mut().fire_read_wake();
                    phase = 3;
                }
            }
            _ => {
                let dl = ex.now() + Duration::from_secs(10);
                if ex.idle_until(dl).await == Idle::Deadline {
                    out.stuck = Some("the connection task never finishes after the peer closed and reset the connection".into());
                    break;
                }
            }
        }
    }
    let _ = t;
    out.out_bytes = ss.st.borrow().out.len();
    out.tape = tape.borrow().record.clone();
    out.sim_ms = ex.now_ms();
    drop(ex);
    drop(handler);
    out
}

fn run_ws(bytes: Vec<u8>, cuts: Vec<u32>, server: bool, max_size: u32) -> Out {
    let mut out = Out::default();
    actix_http::ws::verif::seed_masks(bytes.len() as u64 * 0x9E37_79B9 + max_size as u64);
    let mut codec = actix_http::ws::Codec::new().max_size(max_size as usize);
    if !server {
        codec = codec.client_mode();
    }
    let mut buf = BytesMut::new();
    let mut enc = BytesMut::new();
    let mut off = 0usize;
    let mut ci = 0usize;
    'outer: while off < bytes.len() {
        let n = (cuts.get(ci % cuts.len().max(1)).copied().unwrap_or(u32::MAX) as usize).max(1).min(bytes.len() - off);
        ci += 1;
        buf.extend_from_slice(&bytes[off..off + n]);
        off += n;
        loop {
            out.steps += 1;
            if out.steps > 2_000_000 {
                out.stuck = Some("busy-loop: decoder keeps returning frames without consuming input".into());
                break 'outer;
            }
            match codec.decode(&mut buf) {
                Ok(Some(frame)) => {
                    *out.stats.entry("ws_frames_decoded").or_insert(0) += 1;
                    // answer the way an application would
                    use actix_http::ws::{Frame, Message};
                    let reply = match frame {
                        Frame::Ping(b) => Some(Message::Pong(b)),
                        Frame::Text(b) => Some(Message::Text(String::from_utf8_lossy(&b).to_string().into())),
                        Frame::Binary(b) => Some(Message::Binary(b)),
                        Frame::Close(r) => Some(Message::Close(r)),
                        _ => None,
                    };
                    if let Some(m) = reply {
                        let _ = codec.encode(m, &mut enc);
                        enc.clear();
                    }
                }
                Ok(None) => break,
                Err(_) => {
                    *out.stats.entry("ws_decode_errors").or_insert(0) += 1;
                    break 'outer;
                }
            }
        }
    }
    out
}

pub struct FzRig;

fn gen_mut(rng: &mut Rng) -> Mut {
    match rng.below(9) {
        0 | 1 => Mut::Flip { at_pm: rng.below(1001) as u32, bit: rng.below(8) as u8 },
        2 => Mut::Truncate { at_pm: rng.below(1001) as u32 },
        3 => Mut::SetByte { at_pm: rng.below(1001) as u32, val: *rng.pick(&[0u8, 0x0a, 0x0d, 0x20, 0x22, 0x25, 0x2c, 0x2d, 0x3a, 0x3b, 0x3d, 0x7f, 0x80, 0xff]) },
        4 => Mut::Insert { at_pm: rng.below(1001) as u32, bytes: (0..rng.range(1, 12)).map(|_| rng.below(256) as u8).collect() },
        5 => Mut::Dup { from_pm: rng.below(1001) as u32, len: rng.range(1, 200) as u32, to_pm: rng.below(1001) as u32 },
        6 | 7 => Mut::Num { nth: rng.below(40) as u32, val: rng.pick(EXTREMES).to_string() },
        _ => Mut::Repeat { at_pm: rng.below(1001) as u32, byte: *rng.pick(&[b'a', b'0', b',', b';', b'=', b'%', b'"', b' ', b'/', b'.', 0xff]), count: *rng.pick(&[2u32, 100, 9000, 70_000]) },
    }
}

impl Rig for FzRig {
    type Sc = FzScenario;
    fn property(&self) -> &'static str {
        "C19"
    }
    fn rig_name(&self) -> &'static str {
        "FZ"
    }
    fn runs(&self, tier: Tier) -> u64 {
        match tier {
            Tier::Quick => 40_000,
            Tier::Thorough => 3_000_000,
        }
    }
    fn gen(&self, rng: &mut Rng, idx: u64, _tier: Tier) -> FzScenario {
        let target = match idx % 8 {
            0..=4 => Target::H1App,
            5 => Target::WsServer,
            6 => Target::WsClient,
            _ => Target::Client,
        };
        let nm = rng.weighted(&[1, 6, 4, 2, 1]);
        FzScenario {
            target,
            base: rng.next_u64() % 1_000_000,
            region: rng.below(3) as u8,
            muts: (0..nm).map(|_| gen_mut(rng)).collect(),
            cuts: match rng.below(4) {
                0 => vec![u32::MAX],
                1 => vec![1],
                2 => (0..rng.range(1, 6)).map(|_| rng.range(1, 40) as u32).collect(),
                _ => (0..rng.range(1, 6)).map(|_| rng.range(1, 5000) as u32).collect(),
            },
            ws_max_size: *rng.pick(&[0u32, 125, 65_536, 1 << 20]),
        }
    }

    fn shrink(&self, sc: &FzScenario) -> Vec<FzScenario> {
        let mut v = Vec::new();
        for i in 0..sc.muts.len() {
            let mut c = sc.clone();
            c.muts.remove(i);
            v.push(c);
        }
        if sc.cuts != vec![u32::MAX] {
            let mut c = sc.clone();
            c.cuts = vec![u32::MAX];
            v.push(c);
        }
        v
    }

    fn run(&self, sc: &FzScenario, tape: Tape, narrative: bool) -> RunReport {
        let mut vs = Vec::new();
        let mut narr = Vec::new();
        let (bytes, out) = match sc.target {
            Target::H1App => {
                let bytes = apply(base_http_request(sc.base), sc.region, &sc.muts);
                let (b2, cuts) = (bytes.clone(), sc.cuts.clone());
                let out = run_sim(async move { run_h1(b2, cuts, tape).await });
                (bytes, out)
            }
            Target::WsServer | Target::WsClient => {
                let server = sc.target == Target::WsServer;
                let bytes = apply(base_ws_frames(sc.base, server), 0, &sc.muts);
                let out = run_ws(bytes.clone(), sc.cuts.clone(), server, sc.ws_max_size);
                (bytes, out)
            }
            Target::Client => {
                let mut r = base_client_req(sc.base);
                let bytes = apply(cl::wire(0, &r), sc.region, &sc.muts);
                r.raw = Some(bytes.clone());
                let csc = cl::ClScenario { limit: 1, reqs: vec![r], read_cap: sc.cuts.first().copied().filter(|c| *c != u32::MAX).unwrap_or(0), slow_connect: false };
                let o = run_sim(async move { cl::run_world(csc, tape, false).await });
                let mut out = Out::default();
                out.steps = o.steps;
                out.sim_ms = o.sim_ms;
                out.stuck = o.stuck.clone();
                out.tape = o.tape.clone();
                (bytes, out)
            }
        };
        if narrative {
            narr.push(format!("target {:?}: {} bytes delivered (cuts {:?}); first 300: {:?}", sc.target, bytes.len(), sc.cuts, String::from_utf8_lossy(&bytes[..bytes.len().min(300)])));
            narr.push(format!("steps {}, bytes written by the code under test {}", out.steps, out.out_bytes));
        }
        if let Some(s) = &out.stuck {
            vs.push(Violation::new("C19.terminates", format!("{:?}", sc.target), s.clone()));
        }
        let mut stats = out.stats.clone();
        stats.insert(
            match sc.target {
                Target::H1App => "target_h1_app",
                Target::WsServer => "target_ws_server",
                Target::WsClient => "target_ws_client",
                Target::Client => "target_client",
            },
            1,
        );
        for m in &sc.muts {
            let k = match m {
                Mut::Flip { .. } => "fault_bit_flip",
                Mut::Truncate { .. } => "fault_truncate",
                Mut::SetByte { .. } => "fault_set_byte",
                Mut::Insert { .. } => "fault_insert_random",
                Mut::Dup { .. } => "fault_duplicate",
                Mut::Num { .. } => "fault_length_extreme",
                Mut::Repeat { .. } => "fault_oversize_field",
            };
            *stats.entry(k).or_insert(0) += 1;
        }
        if out.out_bytes > 0 {
            stats.insert("server_wrote_response", 1);
        }
        let mut h: u64 = 0xcbf29ce484222325;
        for b in serde_json::to_string(sc).unwrap_or_default().bytes() {
            h = (h ^ b as u64).wrapping_mul(0x100000001b3);
        }
        h = (h ^ out.steps ^ ((out.out_bytes as u64) << 24)).wrapping_mul(0x100000001b3);
        RunReport {
            violations: vs,
            trace_hash: h,
            stats,
            nontrivial: !sc.muts.is_empty(),
            states: vec![],
            sim_ms: out.sim_ms,
            steps: out.steps,
            tape: out.tape.clone(),
            narrative: narr,
        }
    }

    fn nontrivial_rule(&self) -> &'static str {
        "a run is one message (HTTP/1 request for an App that applies every request parser: typed headers, ConnectionInfo, cookies, Query, Path, Json, Form, String/charset, Bytes, Multipart, actix-files path + NamedFile conditional/range logic, ws handshake; a WebSocket frame sequence for either role; an HTTP/1 response for awc) damaged by 0–4 generated faults (bit flip, truncation, byte overwrite, random insert, duplication, length-field extreme, oversized field) and delivered under a generated segmentation (whole, byte-wise, random cuts); non-trivial = at least one fault applied; distinct = distinct (target, base message, faults, cuts)"
    }
    fn real_components(&self) -> Vec<&'static str> {
        vec!["actix_http h1 dispatcher/decoder/encoder, ws::Codec/Parser/handshake, h1 client codec", "actix_web App/router/extractors/typed headers/ConnectionInfo", "actix_multipart", "actix_files::{PathBufWrap, NamedFile::into_response}", "actix_router (Path deserializer, Quoter)", "awc client (response side)"]
    }
    fn stub_components(&self) -> Vec<&'static str> {
        vec!["sockets", "peers (corrupting producers)", "file bodies are never polled (blocking pool avoided); files live in a per-process temp dir", "executor, virtual clock"]
    }
    fn assumptions(&self) -> Vec<&'static str> {
        vec!["built with --profile simdbg: overflow-checks and debug-assertions on for every crate including actix-*"]
    }
    fn expected_probes(&self) -> Vec<&'static str> {
        vec!["fault_bit_flip", "fault_truncate", "fault_length_extreme", "fault_oversize_field", "fault_duplicate", "target_h1_app", "target_ws_server", "target_ws_client", "target_client", "ws_frames_decoded", "ws_decode_errors", "server_wrote_response"]
    }
}
