//! Rig MP (C15): `actix_multipart::Multipart` / `Field` over a scripted chunk stream.
//!
//! The body is built from a ground-truth field list by an independent RFC 2046/7578 producer; the
//! scripted stream decides chunking, `Pending` between chunks, truncation and stream errors; the
//! consumer task is polled only when woken.

use std::{
    cell::RefCell,
    collections::VecDeque,
    pin::Pin,
    rc::Rc,
    sync::{
        atomic::{AtomicBool, AtomicU64, Ordering},
        Arc,
    },
    task::{Context, Poll, Wake, Waker},
};

use actix_http::error::PayloadError;
use actix_multipart::{Multipart, MultipartConfig};
use actix_web::{dev, test::TestRequest, FromRequest};
use bytes::Bytes;
use futures_core::Stream;
use serde::{Deserialize, Serialize};

use crate::{
    batch::{Rig, RunReport, Tier, Violation},
    rng::{Rng, Tape},
};

#[derive(Clone, Debug, Serialize, Deserialize, PartialEq, Eq)]
pub enum Content {
    Empty,
    Text(String),
    /// pseudo-random bytes (CR, LF, dashes frequent) from a seed
    Binary { seed: u32, len: usize },
    /// explicit bytes around boundary look-alikes: `pre` + look-alike + `post`
    Tricky { pre: String, kind: Tricky, post: String },
}

#[derive(Clone, Copy, Debug, Serialize, Deserialize, PartialEq, Eq)]
pub enum Tricky {
    EndsWithCr,
    EndsWithCrLf,
    EndsWithDashes,
    CrLfDashesOther,
    CrLfBoundaryPrefix,
    LfBoundary,
    BareCrBoundary,
    BoundaryMidLine,
    CrCrLf,
}

#[derive(Clone, Copy, Debug, Serialize, Deserialize, PartialEq, Eq)]
pub enum ClKind {
    None,
    Right,
}

#[derive(Clone, Debug, Serialize, Deserialize)]
pub struct FieldSpec {
    pub name: String,
    pub filename: Option<String>,
    pub ctype: Option<String>,
    pub content: Content,
    pub cl: ClKind,
}

#[derive(Clone, Copy, Debug, Serialize, Deserialize, PartialEq, Eq)]
pub enum Malformed {
    /// delimiter line followed by junk instead of CRLF / `--`
    DelimiterJunk,
    /// header block without the terminating empty line before the next delimiter
    HeadersNoColon,
    /// missing close delimiter (body just ends after the last field's CRLF)
    NoCloseDelimiter,
    /// first delimiter never appears
    NoFirstDelimiter,
}

#[derive(Clone, Copy, Debug, Serialize, Deserialize, PartialEq, Eq)]
pub enum Consumer {
    ReadAll,
    /// drop field k after reading this many chunks of it
    DropFieldAfter { field: usize, chunks: usize },
}

#[derive(Clone, Debug, Serialize, Deserialize)]
pub struct MpScenario {
    pub boundary: String,
    pub preamble: Vec<String>,
    pub epilogue: String,
    pub fields: Vec<FieldSpec>,
    pub malformed: Option<Malformed>,
    pub truncate_at: Option<usize>,
    /// cut offsets of the body
    pub cuts: Vec<usize>,
    /// number of `Pending` returns before chunk k (each followed by a wake from the "network")
    pub pendings: Vec<u8>,
    pub stream_error_at_chunk: Option<usize>,
    pub buffer_limit: usize,
    pub consumer: Consumer,
}

pub fn content_bytes(c: &Content, boundary: &str) -> Vec<u8> {
    let mut v = content_bytes_raw(c, boundary);
    // a producer must not emit CRLF--boundary inside content (RFC 2046 §5.1.1)
    let delim = format!("\r\n--{}", boundary).into_bytes();
    while let Some(p) = v.windows(delim.len()).position(|w| w == &delim[..]) {
        v[p] = b'x';
    }
    v
}

fn content_bytes_raw(c: &Content, boundary: &str) -> Vec<u8> {
    match c {
        Content::Empty => vec![],
        Content::Text(s) => s.as_bytes().to_vec(),
        Content::Binary { seed, len } => {
            let mut x = (*seed as u64) << 20 ^ 0x7F4A_7C15;
            let mut v = Vec::with_capacity(*len);
            while v.len() < *len {
                let r = crate::rng::splitmix(&mut x);
                v.push(match r & 7 {
                    0 => b'\r',
                    1 => b'\n',
                    2 => b'-',
                    _ => (r >> 8) as u8,
                });
            }
            // a producer must not emit CRLF--boundary inside content (RFC 2046): break any by chance
            let delim = format!("\r\n--{}", boundary).into_bytes();
            while let Some(p) = v.windows(delim.len()).position(|w| w == &delim[..]) {
                v[p] = b'x';
            }
            // nor bare-CR look-alikes by chance (kept for the explicit Tricky class)
            let d2 = format!("\r--{}", boundary).into_bytes();
            while let Some(p) = v.windows(d2.len()).position(|w| w == &d2[..]) {
                v[p] = b'y';
            }
            v
        }
        Content::Tricky { pre, kind, post } => {
            let mut v = pre.as_bytes().to_vec();
            match kind {
                Tricky::EndsWithCr => v.extend_from_slice(b"\r"),
                Tricky::EndsWithCrLf => v.extend_from_slice(b"\r\n"),
                Tricky::EndsWithDashes => v.extend_from_slice(b"--"),
                Tricky::CrLfDashesOther => {
                    v.extend_from_slice(b"\r\n--not-the-boundary\r\n");
                    v.extend_from_slice(post.as_bytes());
                }
                Tricky::CrLfBoundaryPrefix => {
                    let b = &boundary[..boundary.len().saturating_sub(1)];
                    v.extend_from_slice(format!("\r\n--{}", b).as_bytes());
                    if boundary.len() > 1 {
                        // differs from the boundary in its last character
                        v.push(if boundary.as_bytes()[boundary.len() - 1] == b'#' { b'%' } else { b'#' });
                    } else {
                        v.push(b'#');
                    }
                    v.extend_from_slice(post.as_bytes());
                }
                Tricky::LfBoundary => {
                    v.extend_from_slice(format!("\n--{}\r\n", boundary).as_bytes());
                    v.extend_from_slice(post.as_bytes());
                }
                Tricky::BareCrBoundary => {
                    v.extend_from_slice(format!("\r--{}\r\n", boundary).as_bytes());
                    v.extend_from_slice(post.as_bytes());
                }
                Tricky::BoundaryMidLine => {
                    v.extend_from_slice(format!("x--{}--", boundary).as_bytes());
                    v.extend_from_slice(post.as_bytes());
                }
                Tricky::CrCrLf => {
                    v.extend_from_slice(b"\r\r\n\r");
                    v.extend_from_slice(post.as_bytes());
                }
            }
            v
        }
    }
}

pub struct Built {
    pub body: Vec<u8>,
    /// (content_start, content_end) per field
    pub spans: Vec<(usize, usize)>,
    /// offset just after the close delimiter `--boundary--`
    pub complete_at: usize,
}

/// Independent producer: RFC 2046 §5.1.1 / RFC 7578.
pub fn build(sc: &MpScenario) -> Built {
    let b = &sc.boundary;
    let mut body = Vec::new();
    for l in &sc.preamble {
        body.extend_from_slice(l.as_bytes());
        body.extend_from_slice(b"\r\n");
    }
    let mut spans = Vec::new();
    if sc.malformed == Some(Malformed::NoFirstDelimiter) {
        body.extend_from_slice(b"there is no delimiter line in this body\r\nat all\r\n");
        let n = body.len();
        return Built { body, spans, complete_at: n + 1 };
    }
    for (i, f) in sc.fields.iter().enumerate() {
        body.extend_from_slice(format!("--{}", b).as_bytes());
        // (a malformed *first* delimiter line is just preamble text for a conforming parser)
        if sc.malformed == Some(Malformed::DelimiterJunk) && i == sc.fields.len() - 1 && i > 0 {
            body.extend_from_slice(b"junk");
        }
        body.extend_from_slice(b"\r\n");
        let mut cd = format!("content-disposition: form-data; name=\"{}\"", f.name);
        if let Some(fname) = &f.filename {
            cd.push_str(&format!("; filename=\"{}\"", fname));
        }
        body.extend_from_slice(cd.as_bytes());
        body.extend_from_slice(b"\r\n");
        if let Some(ct) = &f.ctype {
            body.extend_from_slice(format!("content-type: {}\r\n", ct).as_bytes());
        }
        let content = content_bytes(&f.content, b);
        if f.cl == ClKind::Right {
            body.extend_from_slice(format!("content-length: {}\r\n", content.len()).as_bytes());
        }
        if sc.malformed == Some(Malformed::HeadersNoColon) && i == sc.fields.len() - 1 {
            body.extend_from_slice(b"this header line has no colon\r\n");
        }
        body.extend_from_slice(b"\r\n");
        let s = body.len();
        body.extend_from_slice(&content);
        spans.push((s, body.len()));
        body.extend_from_slice(b"\r\n");
    }
    let complete_at;
    if sc.malformed == Some(Malformed::NoCloseDelimiter) {
        complete_at = body.len() + 1;
    } else {
        body.extend_from_slice(format!("--{}--", b).as_bytes());
        complete_at = body.len();
        body.extend_from_slice(b"\r\n");
        body.extend_from_slice(sc.epilogue.as_bytes());
    }
    Built { body, spans, complete_at }
}

// ------------------------------------------------------------------------------------------

struct StreamState {
    chunks: VecDeque<Bytes>,
    pendings: Vec<u8>,
    k: usize,
    error_at: Option<usize>,
    waker: Option<Waker>,
    pulled: usize,
    polls_after_end: u64,
    ended: bool,
    errored: bool,
    /// unconsumed bytes (pulled − consumed offset) observed when the parser asked for more
    max_unconsumed_at_pull: i64,
    consumed_offset: Rc<RefCell<usize>>,
    pending_fired: u64,
}

struct ScriptStream(Rc<RefCell<StreamState>>);

impl Stream for ScriptStream {
    type Item = Result<Bytes, PayloadError>;
    fn poll_next(self: Pin<&mut Self>, cx: &mut Context<'_>) -> Poll<Option<Self::Item>> {
        let mut st = self.0.borrow_mut();
        if st.ended || st.errored {
            st.polls_after_end += 1;
            return Poll::Ready(None);
        }
        if let Some(e) = st.error_at {
            if st.k >= e {
                st.errored = true;
                return Poll::Ready(Some(Err(PayloadError::Incomplete(None))));
            }
        }
        if st.chunks.is_empty() {
            st.ended = true;
            return Poll::Ready(None);
        }
        let k = st.k;
        if let Some(p) = st.pendings.get_mut(k) {
            if *p > 0 {
                *p -= 1;
                st.waker = Some(cx.waker().clone());
                st.pending_fired += 1;
                return Poll::Pending;
            }
        }
        let unconsumed = st.pulled as i64 - *st.consumed_offset.borrow() as i64;
        if unconsumed > st.max_unconsumed_at_pull {
            st.max_unconsumed_at_pull = unconsumed;
        }
        let c = st.chunks.pop_front().unwrap();
        st.k += 1;
        st.pulled += c.len();
        Poll::Ready(Some(Ok(c)))
    }
}

struct Flag {
    woken: AtomicBool,
    wakes: AtomicU64,
}
impl Wake for Flag {
    fn wake(self: Arc<Self>) {
        self.wake_by_ref()
    }
    fn wake_by_ref(self: &Arc<Self>) {
        self.woken.store(true, Ordering::SeqCst);
        self.wakes.fetch_add(1, Ordering::SeqCst);
    }
}

#[derive(Debug, Clone, Default)]
struct GotField {
    name: Option<String>,
    filename: Option<String>,
    ctype: Option<String>,
    content: Vec<u8>,
    ended_clean: bool,
    error: Option<String>,
    dropped_early: bool,
}

#[derive(Debug, Default)]
struct Got {
    fields: Vec<GotField>,
    top_error: Option<String>,
    clean_end: bool,
}

pub struct MpRig;

const BOUNDARY_CHARS: &[u8] = b"abcdefghijklmnopqrstuvwxyzABCDEFGHIJKLMNOPQRSTUVWXYZ0123456789'()+_,-./:=?";

fn gen_content(rng: &mut Rng) -> Content {
    let words = ["", "a", "hello world", "line1\r\nline2", "--", "-", "\r", "\n", "x\r\n", "--dash-start", "ends with dash-"];
    match rng.below(10) {
        0 => Content::Empty,
        1 | 2 => Content::Text(rng.pick(&words).to_string()),
        3 | 4 | 5 => Content::Binary { seed: rng.below(1 << 30) as u32, len: *rng.pick(&[1usize, 2, 3, 50, 500, 5000, 70_000]) },
        _ => Content::Tricky {
            pre: rng.pick(&words).to_string(),
            kind: *rng.pick(&[
                Tricky::EndsWithCr,
                Tricky::EndsWithCrLf,
                Tricky::EndsWithDashes,
                Tricky::CrLfDashesOther,
                Tricky::CrLfBoundaryPrefix,
                Tricky::LfBoundary,
                Tricky::BareCrBoundary,
                Tricky::BoundaryMidLine,
                Tricky::CrCrLf,
            ]),
            post: rng.pick(&words).to_string(),
        },
    }
}

impl Rig for MpRig {
    type Sc = MpScenario;
    fn property(&self) -> &'static str {
        "C15"
    }
    fn rig_name(&self) -> &'static str {
        "MP"
    }
    fn runs(&self, tier: Tier) -> u64 {
        match tier {
            Tier::Quick => 400_000,
            // TestRequest::to_http_request leaks one request object per call (its private request
            // pool and the request reference each other; test utility only): ~3.4 KB per run
            Tier::Thorough => 5_000_000,
        }
    }
    fn gen(&self, rng: &mut Rng, idx: u64, _tier: Tier) -> MpScenario {
        let blen = *rng.pick(&[1usize, 2, 8, 27, 40, 70]);
        let mut boundary: String = (0..blen).map(|_| *rng.pick(BOUNDARY_CHARS) as char).collect();
        // a boundary must not end with a space; ours never contains one. Avoid a trailing '-' run
        // that would make `--B--` ambiguous with `--B-` + '-'.
        if boundary.ends_with('-') {
            boundary.pop();
            boundary.push('x');
        }
        let nf = rng.range(0, 4);
        let fields: Vec<FieldSpec> = (0..nf)
            .map(|i| FieldSpec {
                name: format!("f{}", i),
                filename: if rng.chance(1, 3) { Some(format!("file{}.bin", i)) } else { None },
                ctype: if rng.chance(1, 2) { Some((*rng.pick(&["text/plain", "application/octet-stream", "image/png"])).to_string()) } else { None },
                content: gen_content(rng),
                cl: if rng.chance(1, 5) { ClKind::Right } else { ClKind::None },
            })
            .collect();
        let mode = idx % 4; // 0,1 well-formed; 2 truncated; 3 malformed / stream error
        let mut sc = MpScenario {
            boundary,
            preamble: if rng.chance(1, 4) { vec!["This is the preamble.".to_string(), "".to_string(), "--not-a-delimiter".to_string()][..rng.range(1, 3)].to_vec() } else { vec![] },
            epilogue: if rng.chance(1, 4) { "epilogue text\r\n--more".to_string() } else { String::new() },
            fields,
            malformed: None,
            truncate_at: None,
            cuts: vec![],
            pendings: vec![],
            stream_error_at_chunk: None,
            buffer_limit: *rng.pick(&[65_536usize, 65_536, 1024, 300, 1_000_000]),
            consumer: Consumer::ReadAll,
        };
        if mode == 3 && !sc.fields.is_empty() {
            sc.malformed = Some(*rng.pick(&[Malformed::DelimiterJunk, Malformed::HeadersNoColon, Malformed::NoCloseDelimiter, Malformed::NoFirstDelimiter]));
        }
        let built = build(&sc);
        let n = built.body.len();
        if mode == 2 && n > 1 {
            sc.truncate_at = Some(if rng.chance(1, 2) {
                rng.range(0, n - 1)
            } else {
                // near a delimiter: the last bytes of a field content and the delimiter after it
                let (_, e) = built.spans.get(rng.usize(built.spans.len().max(1))).copied().unwrap_or((0, 0));
                (e + rng.usize(sc.boundary.len() + 8)).min(n - 1)
            });
        }
        // chunking
        let ncuts = match rng.below(5) {
            0 => 0,
            1 if n < 3000 => n, // byte-wise
            _ => rng.range(1, 12),
        };
        let mut cuts: Vec<usize> = if ncuts >= n && n > 0 {
            (1..n).collect()
        } else {
            (0..ncuts)
                .map(|_| {
                    if rng.chance(1, 2) && !built.spans.is_empty() {
                        // around the end of a field's content / inside the delimiter
                        let (_, e) = built.spans[rng.usize(built.spans.len())];
                        (e + rng.usize(sc.boundary.len() + 8)).saturating_sub(2).min(n)
                    } else {
                        rng.range(0, n.max(1))
                    }
                })
                .collect()
        };
        cuts.retain(|c| *c > 0 && *c < n);
        cuts.sort();
        cuts.dedup();
        sc.pendings = (0..cuts.len() + 1).map(|_| if rng.chance(1, 3) { rng.range(1, 2) as u8 } else { 0 }).collect();
        sc.cuts = cuts;
        if mode == 3 && rng.chance(1, 3) {
            sc.malformed = None;
            sc.stream_error_at_chunk = Some(rng.usize(sc.cuts.len() + 1));
        }
        if rng.chance(1, 6) && !sc.fields.is_empty() {
            sc.consumer = Consumer::DropFieldAfter { field: rng.usize(sc.fields.len()), chunks: rng.usize(3) };
        }
        sc
    }

    fn run(&self, sc: &MpScenario, _tape: Tape, narrative: bool) -> RunReport {
        let built = build(sc);
        let mut body = built.body.clone();
        if let Some(t) = sc.truncate_at {
            body.truncate(t.min(body.len()));
        }
        let mut chunks = VecDeque::new();
        let mut prev = 0;
        for c in sc.cuts.iter().copied().filter(|c| *c < body.len()) {
            if c > prev {
                chunks.push_back(Bytes::copy_from_slice(&body[prev..c]));
                prev = c;
            }
        }
        if body.len() > prev {
            chunks.push_back(Bytes::copy_from_slice(&body[prev..]));
        }
        let max_chunk = chunks.iter().map(|c| c.len()).max().unwrap_or(0);
        let nchunks = chunks.len();
        let consumed_offset = Rc::new(RefCell::new(0usize));
        let st = Rc::new(RefCell::new(StreamState {
            chunks,
            pendings: sc.pendings.clone(),
            k: 0,
            error_at: sc.stream_error_at_chunk,
            waker: None,
            pulled: 0,
            polls_after_end: 0,
            ended: false,
            errored: false,
            max_unconsumed_at_pull: 0,
            consumed_offset: consumed_offset.clone(),
            pending_fired: 0,
        }));
        let got = Rc::new(RefCell::new(Got::default()));

        // the extractor path, so that the buffer limit can be configured
        let req = TestRequest::default()
            .insert_header(("content-type", format!("multipart/form-data; boundary=\"{}\"", sc.boundary)))
            .app_data(MultipartConfig::new().buffer_limit(sc.buffer_limit))
            .to_http_request();
        let boxed: Pin<Box<dyn Stream<Item = Result<Bytes, PayloadError>>>> = Box::pin(ScriptStream(st.clone()));
        let mut pl = dev::Payload::Stream { payload: boxed };
        let mp_fut = Multipart::from_request(&req, &mut pl);

        let got2 = got.clone();
        let consumer = sc.consumer;
        let spans = built.spans.clone();
        let co = consumed_offset.clone();
        let mut task: Pin<Box<dyn std::future::Future<Output = ()>>> = Box::pin(async move {
            let mut mp = match mp_fut.await {
                Ok(m) => m,
                Err(e) => {
                    got2.borrow_mut().top_error = Some(format!("{:?}", e));
                    return;
                }
            };
            let mut fi = 0usize;
            loop {
                let item = std::future::poll_fn(|cx| Pin::new(&mut mp).poll_next(cx)).await;
                match item {
                    None => {
                        got2.borrow_mut().clean_end = true;
                        return;
                    }
                    Some(Err(e)) => {
                        got2.borrow_mut().top_error = Some(format!("{}", e));
                        return;
                    }
                    Some(Ok(mut field)) => {
                        let cd = field.content_disposition().cloned();
                        got2.borrow_mut().fields.push(GotField {
                            name: field.name().map(|s| s.to_string()),
                            filename: cd.as_ref().and_then(|c| c.get_filename().map(|s| s.to_string())),
                            ctype: field.content_type().map(|m| m.to_string()),
                            ..Default::default()
                        });
                        if let Some((s, _)) = spans.get(fi) {
                            let mut c = co.borrow_mut();
                            if *s > *c {
                                *c = *s;
                            }
                        }
                        let mut nchunks = 0usize;
                        loop {
                            if let Consumer::DropFieldAfter { field: f, chunks } = consumer {
                                if f == fi && nchunks >= chunks {
                                    got2.borrow_mut().fields[fi].dropped_early = true;
                                    break;
                                }
                            }
                            let ch = std::future::poll_fn(|cx| Pin::new(&mut field).poll_next(cx)).await;
                            match ch {
                                None => {
                                    got2.borrow_mut().fields[fi].ended_clean = true;
                                    break;
                                }
                                Some(Ok(b)) => {
                                    nchunks += 1;
                                    *co.borrow_mut() += b.len();
                                    got2.borrow_mut().fields[fi].content.extend_from_slice(&b);
                                }
                                Some(Err(e)) => {
                                    got2.borrow_mut().fields[fi].error = Some(format!("{}", e));
                                    // a failed field ends the parse for this consumer
                                    got2.borrow_mut().top_error = Some(format!("field error: {}", e));
                                    return;
                                }
                            }
                        }
                        drop(field);
                        fi += 1;
                    }
                }
            }
        });

        // wake-driven mini executor
        let flag = Arc::new(Flag { woken: AtomicBool::new(true), wakes: AtomicU64::new(0) });
        let waker = Waker::from(flag.clone());
        let mut polls = 0u64;
        let mut done = false;
        let mut hang: Option<String> = None;
        let mut narr = Vec::new();
        let budget = 200_000u64 + 4 * body.len() as u64;
        loop {
            if flag.woken.swap(false, Ordering::SeqCst) {
                polls += 1;
                let mut cx = Context::from_waker(&waker);
                if task.as_mut().poll(&mut cx).is_ready() {
                    done = true;
                    break;
                }
                if polls > budget {
                    hang = Some(format!("consumer still running after {} polls (self-waking without end)", polls));
                    break;
                }
                continue;
            }
            // not woken: the "network" delivers (fires the stream's stored waker), if it holds one
            let w = st.borrow_mut().waker.take();
            match w {
                Some(w) => w.wake(),
                None => {
                    // quiescent: nobody will ever wake the consumer
                    let s = st.borrow();
                    // probe: would another poll make progress?
                    drop(s);
                    let before = (st.borrow().pulled, got.borrow().fields.len(), got.borrow().fields.iter().map(|f| f.content.len()).sum::<usize>());
                    let mut cx = Context::from_waker(&waker);
                    let ready = task.as_mut().poll(&mut cx).is_ready();
                    let after = (st.borrow().pulled, got.borrow().fields.len(), got.borrow().fields.iter().map(|f| f.content.len()).sum::<usize>());
                    let s = st.borrow();
                    hang = Some(format!(
                        "consumer parked for ever: stream {} ({} of {} chunks pulled), no wake-up pending; a probe poll {}",
                        if s.ended { "has ended" } else if s.errored { "has failed" } else { "still has data" },
                        s.k,
                        nchunks,
                        if ready || before != after { "made progress (lost wake-up)" } else { "changed nothing (unconditional Pending)" }
                    ));
                    if ready {
                        done = true;
                    }
                    break;
                }
            }
        }
        let _ = done;
        let g = got.borrow();
        let s = st.borrow();
        if narrative {
            narr.push(format!("body {} bytes (complete at {}), truncated at {:?}, {} chunks, buffer limit {}", built.body.len(), built.complete_at, sc.truncate_at, nchunks, sc.buffer_limit));
            narr.push(format!("body: {:?}", String::from_utf8_lossy(&body[..body.len().min(700)])));
            for (i, f) in g.fields.iter().enumerate() {
                narr.push(format!("  field {}: name={:?} {} bytes, clean_end={}, error={:?}, dropped={} | content {:?}", i, f.name, f.content.len(), f.ended_clean, f.error, f.dropped_early, String::from_utf8_lossy(&f.content[..f.content.len().min(80)])));
            }
            narr.push(format!("  top_error={:?} clean_end={} hang={:?} polls={} pulled={}", g.top_error, g.clean_end, hang, polls, s.pulled));
        }

        // ---- oracle
        let mut vs = Vec::new();
        let gt: Vec<Vec<u8>> = sc.fields.iter().map(|f| content_bytes(&f.content, &sc.boundary)).collect();
        let truncated_incomplete = sc.truncate_at.map(|t| t < built.complete_at).unwrap_or(false);
        let junk_ineffective = sc.malformed == Some(Malformed::DelimiterJunk) && sc.fields.len() < 2;
        let must_fail = truncated_incomplete || (sc.malformed.is_some() && !junk_ineffective) || (sc.stream_error_at_chunk.map(|e| e < nchunks || true).unwrap_or(false));
        let stream_fault = sc.stream_error_at_chunk.is_some();
        let tricky_kind = |i: usize| match sc.fields.get(i).map(|f| &f.content) {
            Some(Content::Tricky { kind, .. }) => format!("{:?}", kind),
            Some(Content::Binary { .. }) => "Binary".to_string(),
            Some(Content::Text(_)) => "Text".to_string(),
            Some(Content::Empty) => "Empty".to_string(),
            None => "none".to_string(),
        };
        if let Some(h) = &hang {
            let where_ = match sc.truncate_at {
                Some(t) => {
                    // position of the cut relative to the nearest field end
                    let mut d = "elsewhere".to_string();
                    for (_, e) in &built.spans {
                        if t >= *e && t <= *e + sc.boundary.len() + 6 {
                            d = "inside-delimiter-after-field-content".to_string();
                        }
                    }
                    format!("truncated:{}", d)
                }
                None => {
                    if sc.malformed.is_some() {
                        format!("malformed:{:?}", sc.malformed.unwrap())
                    } else if stream_fault {
                        "stream-error".to_string()
                    } else {
                        "well-formed".to_string()
                    }
                }
            };
            vs.push(Violation::new("C15.error-not-hang", where_, h.clone()));
        }
        // A field whose content contains a bare-CR look-alike `\r--boundary` is cut there by the
        // parser (known defect); everything after it in the same body is a consequence of that.
        let bare = format!("\r--{}", sc.boundary).into_bytes();
        let first_bare = gt.iter().position(|c| c.windows(bare.len()).any(|w| w == &bare[..]));
        if let Some(fb) = first_bare {
            if let Some(f) = g.fields.get(fb) {
                if f.ended_clean && f.content != gt[fb] {
                    vs.push(Violation::new(
                        "C15.no-silent-merge",
                        "bare-CR-boundary-look-alike-taken-as-delimiter",
                        format!("field {} content contains `\\r--boundary` (bare CR, not a line start): the field stream ended cleanly after {} of {} bytes", fb, f.content.len(), gt[fb].len()),
                    ));
                    // earlier fields are still judged below; later ones are not
                }
            }
        }
        let judged_fields = first_bare.unwrap_or(usize::MAX);
        // completed fields must be exact; fields in progress must be prefixes
        for (i, f) in g.fields.iter().enumerate() {
            if i >= judged_fields {
                break;
            }
            match gt.get(i) {
                None => vs.push(Violation::new("C15.exact-fields", "extra-field", format!("field {} ({:?}) was never sent", i, f.name))),
                Some(want) => {
                    if f.name.as_deref() != Some(sc.fields[i].name.as_str()) {
                        vs.push(Violation::new("C15.exact-fields", "name", format!("field {}: name {:?}, sent {:?}", i, f.name, sc.fields[i].name)));
                    }
                    if f.filename != sc.fields[i].filename {
                        vs.push(Violation::new("C15.exact-fields", "filename", format!("field {}: filename {:?}, sent {:?}", i, f.filename, sc.fields[i].filename)));
                    }
                    if f.ctype != sc.fields[i].ctype && !(sc.fields[i].ctype.is_none()) {
                        vs.push(Violation::new("C15.exact-fields", "content-type", format!("field {}: content type {:?}, sent {:?}", i, f.ctype, sc.fields[i].ctype)));
                    }
                    if f.ended_clean {
                        if &f.content != want {
                            let p = f.content.iter().zip(want.iter()).position(|(a, b)| a != b).unwrap_or(f.content.len().min(want.len()));
                            vs.push(Violation::new(
                                "C15.no-silent-merge",
                                format!("field-content-differs:{}", tricky_kind(i)),
                                format!("field {} ended cleanly with {} bytes, {} were sent; first difference at {}; tail delivered {:?}", i, f.content.len(), want.len(), p, String::from_utf8_lossy(&f.content[f.content.len().saturating_sub(30)..])),
                            ));
                        }
                    } else if !want.starts_with(&f.content) {
                        vs.push(Violation::new("C15.exact-fields", format!("partial-content-not-prefix:{}", tricky_kind(i)), format!("field {}: {} bytes delivered are not a prefix of the {} sent", i, f.content.len(), want.len())));
                    }
                }
            }
        }
        if first_bare.is_some() {
            // outcome of the whole body not judged
        } else if g.clean_end {
            if must_fail && !(truncated_incomplete == false && sc.malformed.is_none() && !stream_fault) {
                let why = if truncated_incomplete { "truncated".to_string() } else if let Some(m) = sc.malformed { format!("{:?}", m) } else { "stream-error".to_string() };
                // a stream error placed after the last chunk the parser needed is not observable
                let observable = !stream_fault || s.errored;
                if observable {
                    vs.push(Violation::new("C15.no-silent-merge", format!("clean-end:{}", why), format!("the multipart stream ended cleanly with {} fields although the body was {} (complete only at offset {}, {} bytes delivered)", g.fields.len(), why, built.complete_at, body.len())));
                }
            } else if g.fields.len() != sc.fields.len() {
                vs.push(Violation::new("C15.exact-fields", "field-count", format!("{} fields delivered, {} sent", g.fields.len(), sc.fields.len())));
            }
        } else if hang.is_none() && !must_fail && sc.truncate_at.is_none() {
            // (a body cut after its close delimiter may be accepted or refused)
            vs.push(Violation::new(
                "C15.exact-fields",
                format!("error-on-well-formed:{}", g.fields.len().checked_sub(0).map(|n| tricky_kind(n.saturating_sub(if g.top_error.as_deref().map(|e| e.starts_with("field error")).unwrap_or(false) { 1 } else { 0 }))).unwrap_or_default()),
                format!("well-formed body rejected: {:?} after {} fields (buffer limit {}, largest chunk {})", g.top_error, g.fields.len(), sc.buffer_limit, max_chunk),
            ));
        }
        // bounded buffer: when the parser asks the stream for more, what it already holds
        // unconsumed is at most its limit (+ the chunk in flight + one delimiter/head block)
        let slack = (sc.boundary.len() + 400) as i64;
        if sc.consumer == Consumer::ReadAll && s.max_unconsumed_at_pull > sc.buffer_limit as i64 + max_chunk as i64 + slack {
            vs.push(Violation::new("C15.bounded-buffer", "", format!("parser pulled more input while holding {} unconsumed bytes (limit {}, largest chunk {})", s.max_unconsumed_at_pull, sc.buffer_limit, max_chunk)));
        }

        let mut stats: std::collections::BTreeMap<&'static str, u64> = Default::default();
        stats.insert("stream_pending", s.pending_fired);
        stats.insert("truncated", sc.truncate_at.is_some() as u64);
        stats.insert("malformed", sc.malformed.is_some() as u64);
        stats.insert("stream_error", s.errored as u64);
        stats.insert("field_dropped_early", g.fields.iter().filter(|f| f.dropped_early).count() as u64);
        stats.insert("polls_after_stream_end", s.polls_after_end);
        let mut h: u64 = 0xcbf29ce484222325;
        for b in body.iter().take(4096) {
            h = (h ^ *b as u64).wrapping_mul(0x100000001b3);
        }
        for c in &sc.cuts {
            h = (h ^ *c as u64).wrapping_mul(0x100000001b3);
        }
        for p in &sc.pendings {
            h = (h ^ *p as u64).wrapping_mul(0x100000001b3);
        }
        h = (h ^ body.len() as u64).wrapping_mul(0x100000001b3);
        RunReport {
            violations: vs,
            trace_hash: h,
            stats,
            nontrivial: !sc.fields.is_empty() && (nchunks > 1 || s.pending_fired > 0),
            states: vec![],
            sim_ms: 0,
            steps: polls,
            tape: vec![],
            narrative: narr,
        }
    }

    fn shrink(&self, sc: &MpScenario) -> Vec<MpScenario> {
        let mut v = Vec::new();
        if sc.fields.len() > 1 {
            for i in 0..sc.fields.len() {
                let mut s = sc.clone();
                s.fields.remove(i);
                s.consumer = Consumer::ReadAll;
                v.push(s);
            }
        }
        if !sc.cuts.is_empty() {
            let mut s = sc.clone();
            s.cuts.clear();
            s.pendings.clear();
            v.push(s);
            for i in 0..sc.cuts.len() {
                let mut s = sc.clone();
                s.cuts.remove(i);
                v.push(s);
            }
        }
        if !sc.preamble.is_empty() || !sc.epilogue.is_empty() {
            let mut s = sc.clone();
            s.preamble.clear();
            s.epilogue.clear();
            v.push(s);
        }
        if sc.pendings.iter().any(|p| *p > 0) {
            let mut s = sc.clone();
            s.pendings.iter_mut().for_each(|p| *p = 0);
            v.push(s);
        }
        v
    }

    fn nontrivial_rule(&self) -> &'static str {
        "a run is one multipart body (0–4 fields from the content classes, legal random boundary, optional preamble/epilogue, optional truncation / malformation / stream error) under one chunking with Pending between chunks and one consumer behaviour; non-trivial = at least one field and more than one chunk or at least one Pending actually returned; distinct = distinct (body, chunking, Pending pattern)"
    }
    fn real_components(&self) -> Vec<&'static str> {
        vec!["actix_multipart::Multipart (FromRequest path with MultipartConfig::buffer_limit)", "actix_multipart::Field / InnerField::read_stream / read_len", "PayloadBuffer, Safety"]
    }
    fn stub_components(&self) -> Vec<&'static str> {
        vec!["request body stream (scripted chunks, Pending, truncation, error)", "consumer task and wake-driven executor", "independent RFC 2046/7578 producer (ground truth)"]
    }
    fn expected_probes(&self) -> Vec<&'static str> {
        vec!["stream_pending", "truncated", "malformed", "stream_error", "field_dropped_early"]
    }
}
