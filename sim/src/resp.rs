//! Independent HTTP/1 response reader (RFC 7230 §3.3.3), sharing no code with actix or httparse.
//! It is told the request methods, never guesses, and reports exactly how far it got.

#[derive(Clone, Debug, PartialEq, Eq)]
pub enum BodyFraming {
    NoBody,
    Chunked,
    Length(u64),
    ToClose,
}

#[derive(Clone, Debug)]
pub struct ParsedResp {
    pub start: usize,
    pub head_end: usize,
    pub end: usize,
    pub minor: u8,
    pub status: u16,
    /// lower-cased names, trimmed values, in wire order
    pub headers: Vec<(String, String)>,
    pub framing: BodyFraming,
    pub body: Vec<u8>,
    /// body is complete per its framing (for ToClose: only known when the connection ended)
    pub complete: bool,
}

impl ParsedResp {
    pub fn header(&self, name: &str) -> Option<&str> {
        self.headers
            .iter()
            .find(|(n, _)| n == name)
            .map(|(_, v)| v.as_str())
    }
    pub fn header_all(&self, name: &str) -> Vec<&str> {
        self.headers
            .iter()
            .filter(|(n, _)| n == name)
            .map(|(_, v)| v.as_str())
            .collect()
    }
    pub fn conn_close(&self) -> bool {
        self.header_all("connection")
            .iter()
            .any(|v| v.split(',').any(|t| t.trim().eq_ignore_ascii_case("close")))
    }
    pub fn conn_keepalive(&self) -> bool {
        self.header_all("connection")
            .iter()
            .any(|v| v.split(',').any(|t| t.trim().eq_ignore_ascii_case("keep-alive")))
    }
    /// Must the client treat this response as the last one on the connection?
    pub fn is_last(&self) -> bool {
        if self.conn_close() {
            return true;
        }
        if self.minor == 0 && !self.conn_keepalive() {
            return true;
        }
        self.framing == BodyFraming::ToClose
    }
    pub fn is_interim(&self) -> bool {
        (100..200).contains(&self.status)
    }
}

#[derive(Clone, Debug, PartialEq, Eq)]
pub enum Tail {
    /// stream ends exactly at a message boundary
    Clean,
    /// stream ends inside a head (offset of the head start)
    TruncatedHead(usize),
    /// stream ends inside a framed body
    TruncatedBody(usize),
    /// bytes that are not an HTTP response where one must start
    Malformed(usize, String),
}

#[derive(Clone, Debug)]
pub struct ParsedStream {
    pub resps: Vec<ParsedResp>,
    pub tail: Tail,
}

fn find(hay: &[u8], from: usize, needle: &[u8]) -> Option<usize> {
    if from > hay.len() {
        return None;
    }
    hay[from..]
        .windows(needle.len())
        .position(|w| w == needle)
        .map(|p| p + from)
}

/// Parse one head starting at `at`. Ok(None) = incomplete.
fn parse_head(buf: &[u8], at: usize) -> Result<Option<(usize, u8, u16, Vec<(String, String)>)>, String> {
    let end = match find(buf, at, b"\r\n\r\n") {
        Some(e) => e,
        None => {
            // check what we have so far is at least a plausible prefix of a status line
            let have = &buf[at..];
            let pre = b"HTTP/1.";
            let n = have.len().min(pre.len());
            if have[..n] != pre[..n] {
                return Err("does not start with HTTP/1.".into());
            }
            return Ok(None);
        }
    };
    let head = &buf[at..end];
    let mut lines = head.split(|b| *b == b'\n').map(|l| {
        if l.last() == Some(&b'\r') {
            &l[..l.len() - 1]
        } else {
            l
        }
    });
    let status_line = lines.next().ok_or("no status line")?;
    // HTTP/1.x SP 3DIGIT SP reason
    if status_line.len() < 12 || &status_line[..7] != b"HTTP/1." {
        return Err(format!(
            "bad status line {:?}",
            String::from_utf8_lossy(&status_line[..status_line.len().min(40)])
        ));
    }
    let minor = match status_line[7] {
        b'0' => 0,
        b'1' => 1,
        _ => return Err("bad minor version".into()),
    };
    if status_line[8] != b' ' {
        return Err("no SP after version".into());
    }
    let code = &status_line[9..12];
    if !code.iter().all(|c| c.is_ascii_digit()) {
        return Err("status not 3DIGIT".into());
    }
    let status = (code[0] - b'0') as u16 * 100 + (code[1] - b'0') as u16 * 10 + (code[2] - b'0') as u16;
    if status_line.len() > 12 && status_line[12] != b' ' {
        return Err("no SP after status".into());
    }
    let mut headers = Vec::new();
    for l in lines {
        if l.is_empty() {
            return Err("empty line inside head".into());
        }
        let colon = l.iter().position(|b| *b == b':').ok_or("header line without colon")?;
        let name = &l[..colon];
        if name.is_empty() || name.iter().any(|b| *b == b' ' || *b == b'\t' || *b < 0x21 || *b > 0x7e) {
            return Err("bad header name".into());
        }
        let val = &l[colon + 1..];
        let val = String::from_utf8_lossy(val).trim().to_string();
        headers.push((String::from_utf8_lossy(name).to_ascii_lowercase(), val));
    }
    Ok(Some((end + 4, minor, status, headers)))
}

fn framing_of(method_head: bool, status: u16, headers: &[(String, String)]) -> Result<BodyFraming, String> {
    if method_head || (100..200).contains(&status) || status == 204 || status == 304 {
        return Ok(BodyFraming::NoBody);
    }
    let tes: Vec<&str> = headers
        .iter()
        .filter(|(n, _)| n == "transfer-encoding")
        .map(|(_, v)| v.as_str())
        .collect();
    if !tes.is_empty() {
        let last = tes
            .last()
            .unwrap()
            .split(',')
            .last()
            .unwrap_or("")
            .trim()
            .to_ascii_lowercase();
        if last == "chunked" {
            return Ok(BodyFraming::Chunked);
        }
        return Ok(BodyFraming::ToClose);
    }
    let cls: Vec<&str> = headers
        .iter()
        .filter(|(n, _)| n == "content-length")
        .map(|(_, v)| v.as_str())
        .collect();
    if !cls.is_empty() {
        let mut val: Option<u64> = None;
        for c in cls {
            for part in c.split(',') {
                let p = part.trim();
                if p.is_empty() || !p.bytes().all(|b| b.is_ascii_digit()) {
                    return Err(format!("invalid content-length {:?}", c));
                }
                let n: u64 = p.parse().map_err(|_| "content-length overflow".to_string())?;
                match val {
                    None => val = Some(n),
                    Some(v) if v == n => {}
                    Some(_) => return Err("conflicting content-length values".into()),
                }
            }
        }
        return Ok(BodyFraming::Length(val.unwrap()));
    }
    Ok(BodyFraming::ToClose)
}

/// Ok(Some((body, end))) complete, Ok(None) truncated, Err malformed
fn read_chunked(buf: &[u8], mut at: usize) -> Result<Option<(Vec<u8>, usize)>, String> {
    let mut body = Vec::new();
    loop {
        let le = match find(buf, at, b"\r\n") {
            Some(e) => e,
            None => {
                if buf.len() - at > 64 {
                    return Err("chunk size line too long".into());
                }
                return Ok(None);
            }
        };
        let line = &buf[at..le];
        let hex_end = line.iter().position(|b| *b == b';' || *b == b' ' || *b == b'\t').unwrap_or(line.len());
        let hex = &line[..hex_end];
        if hex.is_empty() || hex.len() > 16 || !hex.iter().all(|b| b.is_ascii_hexdigit()) {
            return Err(format!("bad chunk size line {:?}", String::from_utf8_lossy(line)));
        }
        let size = u64::from_str_radix(std::str::from_utf8(hex).unwrap(), 16).map_err(|e| e.to_string())? as usize;
        at = le + 2;
        if size == 0 {
            // trailers (none expected from this server, accept generically) then CRLF
            loop {
                let te = match find(buf, at, b"\r\n") {
                    Some(e) => e,
                    None => return Ok(None),
                };
                if te == at {
                    return Ok(Some((body, at + 2)));
                }
                at = te + 2;
            }
        }
        if buf.len() < at + size + 2 {
            return Ok(None);
        }
        body.extend_from_slice(&buf[at..at + size]);
        if &buf[at + size..at + size + 2] != b"\r\n" {
            return Err("chunk data not followed by CRLF".into());
        }
        at += size + 2;
    }
}

/// Parse the whole server output. `methods_head[i]` tells whether the i-th *final* response
/// answers a HEAD request (missing entries = not HEAD). `closed` tells whether the connection has
/// ended (so a read-to-close body is complete).
pub fn parse_stream(buf: &[u8], methods_head: &[bool], closed: bool) -> ParsedStream {
    let mut resps = Vec::new();
    let mut at = 0usize;
    let mut finals = 0usize;
    loop {
        if at >= buf.len() {
            return ParsedStream {
                resps,
                tail: Tail::Clean,
            };
        }
        let (head_end, minor, status, headers) = match parse_head(buf, at) {
            Ok(Some(x)) => x,
            Ok(None) => {
                return ParsedStream {
                    resps,
                    tail: Tail::TruncatedHead(at),
                }
            }
            Err(e) => {
                return ParsedStream {
                    resps,
                    tail: Tail::Malformed(at, e),
                }
            }
        };
        let interim = (100..200).contains(&status);
        let is_head = !interim && methods_head.get(finals).copied().unwrap_or(false);
        let framing = match framing_of(is_head, status, &headers) {
            Ok(f) => f,
            Err(e) => {
                return ParsedStream {
                    resps,
                    tail: Tail::Malformed(at, e),
                }
            }
        };
        let mut r = ParsedResp {
            start: at,
            head_end,
            end: head_end,
            minor,
            status,
            headers,
            framing: framing.clone(),
            body: Vec::new(),
            complete: false,
        };
        match framing {
            BodyFraming::NoBody => {
                r.complete = true;
            }
            BodyFraming::Length(n) => {
                let n = n as usize;
                if buf.len() - head_end >= n {
                    r.body = buf[head_end..head_end + n].to_vec();
                    r.end = head_end + n;
                    r.complete = true;
                } else {
                    r.body = buf[head_end..].to_vec();
                    r.end = buf.len();
                    resps.push(r);
                    return ParsedStream {
                        resps,
                        tail: Tail::TruncatedBody(at),
                    };
                }
            }
            BodyFraming::Chunked => match read_chunked(buf, head_end) {
                Ok(Some((body, end))) => {
                    r.body = body;
                    r.end = end;
                    r.complete = true;
                }
                Ok(None) => {
                    r.end = buf.len();
                    resps.push(r);
                    return ParsedStream {
                        resps,
                        tail: Tail::TruncatedBody(at),
                    };
                }
                Err(e) => {
                    return ParsedStream {
                        resps,
                        tail: Tail::Malformed(at, format!("chunked body: {}", e)),
                    }
                }
            },
            BodyFraming::ToClose => {
                r.body = buf[head_end..].to_vec();
                r.end = buf.len();
                r.complete = closed;
                resps.push(r);
                return ParsedStream {
                    resps,
                    tail: if closed { Tail::Clean } else { Tail::TruncatedBody(at) },
                };
            }
        }
        at = r.end;
        if !interim {
            finals += 1;
        }
        resps.push(r);
    }
}

/// Number of complete final responses and of `100 Continue` interim responses in `buf`.
pub fn count_responses(buf: &[u8], methods_head: &[bool]) -> (u32, u32) {
    let p = parse_stream(buf, methods_head, false);
    let mut fin = 0;
    let mut cont = 0;
    for r in &p.resps {
        if r.status == 100 {
            cont += 1;
        } else if r.complete && !r.is_interim() {
            fin += 1;
        }
    }
    (fin, cont)
}

/// Order-insensitive content hash of an output stream with the `date` value masked: used for the
/// canonical trace hash (header order depends on a per-process random hasher seed).
pub fn canon_hash(buf: &[u8]) -> u64 {
    let mut total: u64 = buf.len() as u64;
    for line in buf.split(|b| *b == b'\n') {
        let mut h: u64 = 0xcbf29ce484222325;
        let masked = line.len() >= 6 && line[..6].eq_ignore_ascii_case(b"date: ");
        let l = if masked { &line[..6] } else { line };
        for b in l {
            h ^= *b as u64;
            h = h.wrapping_mul(0x100000001b3);
        }
        total = total.wrapping_add(h.wrapping_mul(0x9E3779B97F4A7C15));
    }
    total
}
