//! H1 rig: scenario generators (swarm style: every run draws its own configuration).

use super::scenario::*;
use crate::{
    rng::Rng,
    sock::{CapMode, SockPlan},
};

pub const BODY_SIZES: &[usize] = &[0, 1, 2, 15, 16, 17, 100, 255, 256, 1000, 4096, 8191, 8192, 8193, 20000, 32767, 32768, 40000, 70000];
pub const CHUNK_SIZES: &[usize] = &[1, 2, 9, 10, 15, 16, 17, 255, 256, 4096, 65536];

#[derive(Clone, Debug)]
pub struct ReqOpts {
    pub allow_head: bool,
    pub allow_10: bool,
    pub allow_conn_opts: bool,
    pub allow_expect: bool,
    pub max_body: usize,
    pub body_p: u64, // per-cent of requests with a body
}

impl Default for ReqOpts {
    fn default() -> Self {
        ReqOpts {
            allow_head: true,
            allow_10: true,
            allow_conn_opts: true,
            allow_expect: false,
            max_body: 20000,
            body_p: 50,
        }
    }
}

pub fn gen_chunked(rng: &mut Rng) -> Framing {
    let n = rng.range(1, 4);
    let sizes: Vec<usize> = (0..n).map(|_| *rng.pick(CHUNK_SIZES)).collect();
    let exts: Vec<Option<String>> = (0..n)
        .map(|_| {
            if rng.chance(1, 4) {
                Some(rng.pick(&["a", "a=b", "name=\"q\"", "x;y=z", "e=1 "]).to_string())
            } else {
                None
            }
        })
        .collect();
    Framing::Chunked {
        sizes,
        exts,
        upper: rng.chance(1, 2),
        lead_zeros: if rng.chance(1, 5) { rng.range(1, 3) as u8 } else { 0 },
        lws: rng.chance(1, 8),
        last_ext: if rng.chance(1, 8) { Some("fin=1".to_string()) } else { None },
    }
}

pub fn gen_req(rng: &mut Rng, id: u32, o: &ReqOpts) -> Req {
    let mut methods: Vec<&str> = vec!["GET", "GET", "POST", "POST", "PUT", "DELETE", "OPTIONS"];
    if o.allow_head {
        methods.push("HEAD");
        methods.push("HEAD");
    }
    let method = rng.pick(&methods).to_string();
    let minor = if o.allow_10 && rng.chance(1, 6) { 0 } else { 1 };
    let wants_body = match method.as_str() {
        "POST" | "PUT" => rng.chance(o.body_p.max(70), 100),
        _ => rng.chance(o.body_p / 5, 100),
    };
    let mut framing = Framing::None;
    let mut body_len = 0;
    if wants_body {
        let sizes: Vec<usize> = BODY_SIZES.iter().copied().filter(|s| *s <= o.max_body).collect();
        body_len = *rng.pick(&sizes);
        framing = if minor == 1 && rng.chance(1, 2) { gen_chunked(rng) } else { Framing::Cl };
    }
    if minor == 0 && method == "POST" && matches!(framing, Framing::None) {
        // HTTP/1.0 POST without Content-Length is (deliberately) rejected by actix: keep it legal
        framing = Framing::Cl;
    }
    let conn_opt = if o.allow_conn_opts {
        match rng.below(10) {
            0 => ConnOpt::Close,
            1 | 2 => ConnOpt::KeepAlive,
            _ => ConnOpt::Absent,
        }
    } else if minor == 0 {
        // keep HTTP/1.0 connections open so that later requests are reached
        ConnOpt::KeepAlive
    } else {
        ConnOpt::Absent
    };
    let mut headers = Vec::new();
    let nfill = rng.usize(4);
    for k in 0..nfill {
        let name = format!("x-fill-{}", k);
        let vlen = *rng.pick(&[0usize, 1, 7, 40, 300]);
        let val: String = (0..vlen).map(|j| (b'a' + ((j + k) % 26) as u8) as char).collect();
        headers.push((name, val));
    }
    if rng.chance(1, 8) {
        // repeated header name: the application must see both values, in order
        headers.push(("x-dup".to_string(), "one".to_string()));
        headers.push(("x-dup".to_string(), "two".to_string()));
    }
    let expect100 = o.allow_expect && minor == 1 && wants_body && body_len > 0 && rng.chance(1, 3);
    Req {
        id,
        method,
        minor,
        conn_opt,
        expect100,
        headers,
        framing,
        body_len,
        body_kind: if rng.chance(2, 3) { BodyKind::Smuggle } else { BodyKind::Pattern(rng.below(1 << 20) as u32) },
        malformed: None,
        target: None,
    }
}

/// Does the client-visible protocol say the connection ends after this request's response?
pub fn req_closes(r: &Req, keep_alive_enabled: bool) -> bool {
    if !keep_alive_enabled {
        return true;
    }
    match (r.minor, r.conn_opt) {
        (_, ConnOpt::Close) => true,
        (0, ConnOpt::KeepAlive) => false,
        (0, _) => true,
        _ => false,
    }
}

#[derive(Clone, Copy, Debug, PartialEq, Eq)]
pub enum CutMode {
    One,
    Bytewise,
    Random,
    Biased,
    Single(usize),
}

/// Interesting cut offsets: around every CR/LF, every request boundary.
pub fn interesting_offsets(stream: &[u8], layout: &[(usize, usize, usize)]) -> Vec<usize> {
    let mut v = Vec::new();
    for (s, h, e) in layout {
        for d in [0usize, 1, 2] {
            for base in [*s, *h, *e] {
                if base + d < stream.len() {
                    v.push(base + d);
                }
                if base >= d && base - d > 0 {
                    v.push(base - d);
                }
            }
        }
    }
    // CR/LF inside bodies and heads (bounded)
    let mut n = 0;
    for (i, b) in stream.iter().enumerate() {
        if *b == b'\r' && n < 400 {
            v.push(i);
            v.push(i + 1);
            if i + 2 < stream.len() {
                v.push(i + 2);
            }
            n += 1;
        }
    }
    v.retain(|o| *o > 0 && *o < stream.len());
    v.sort();
    v.dedup();
    v
}

pub fn gen_segs(rng: &mut Rng, stream_len: usize, interesting: &[usize], mode: CutMode, max_delay: u32) -> Vec<Seg> {
    let mut cuts: Vec<usize> = match mode {
        CutMode::One => vec![],
        CutMode::Bytewise => (1..stream_len).collect(),
        CutMode::Random => {
            let k = rng.range(1, 8);
            (0..k).map(|_| rng.range(1, stream_len.max(2) - 1)).collect()
        }
        CutMode::Biased => {
            let k = rng.range(1, 8);
            (0..k)
                .map(|_| {
                    if !interesting.is_empty() && rng.chance(4, 5) {
                        *rng.pick(interesting)
                    } else {
                        rng.range(1, stream_len.max(2) - 1)
                    }
                })
                .collect()
        }
        CutMode::Single(p) => vec![p],
    };
    cuts.retain(|c| *c > 0 && *c < stream_len);
    cuts.sort();
    cuts.dedup();
    cuts.push(stream_len);
    let bytewise = mode == CutMode::Bytewise;
    cuts.into_iter()
        .map(|end| Seg {
            end,
            delay_ms: if max_delay > 0 && !bytewise && rng.chance(1, 3) { rng.below(max_delay as u64 + 1) as u32 } else { 0 },
            wait: Wait::Time,
        })
        .collect()
}

pub fn gen_cutmode(rng: &mut Rng, stream_len: usize) -> CutMode {
    match rng.below(10) {
        0 => CutMode::One,
        1 if stream_len <= 1500 => CutMode::Bytewise,
        2 | 3 | 4 => CutMode::Random,
        _ => CutMode::Biased,
    }
}

/// Socket readiness faults that do not lose data (segmentation / Pending / partial writes).
pub fn gen_sock_benign(rng: &mut Rng) -> SockPlan {
    let mut p = SockPlan::default();
    p.read_mode = match rng.below(6) {
        0 => CapMode::Byte1,
        1 => CapMode::Rand(7),
        2 => CapMode::Rand(300),
        _ => CapMode::Full,
    };
    if rng.chance(1, 3) {
        p.spurious_read_pm = *rng.pick(&[50u32, 200, 500]);
        p.max_spurious = rng.range(1, 20) as u32;
        if rng.chance(1, 4) {
            p.wouldblock_pm = 500;
        }
    }
    p.write_mode = match rng.below(6) {
        0 => CapMode::Byte1,
        1 => CapMode::Rand(5),
        2 => CapMode::Rand(100),
        _ => CapMode::Full,
    };
    if rng.chance(1, 4) {
        p.flush_pending_pm = *rng.pick(&[100u32, 500]);
        p.max_flush_pending = rng.range(1, 6) as u32;
    }
    // a buffering transport (TLS-like): nothing reaches the wire before poll_flush completes
    p.buffered = rng.chance(1, 5);
    p
}

pub fn gen_sched(rng: &mut Rng) -> Sched {
    let ws = [1u32, 1, 1, 2, 4, 10];
    Sched {
        w_run: *rng.pick(&ws),
        w_deliver: *rng.pick(&ws),
        w_gate: *rng.pick(&ws),
        w_other: *rng.pick(&[1u32, 2, 4]),
        spurious_poll_pm: if rng.chance(1, 4) { *rng.pick(&[20u32, 100]) } else { 0 },
    }
}

pub fn gen_grants(rng: &mut Rng, p: &mut SockPlan, max_delay: u32) -> Vec<(usize, u32)> {
    if p.buffered || !rng.chance(1, 3) {
        return vec![];
    }
    p.gated_writes = true;
    let n = rng.range(1, 12);
    (0..n)
        .map(|_| {
            (
                *rng.pick(&[1usize, 1, 3, 17, 100, 1000, 9000]),
                if max_delay > 0 && rng.chance(1, 3) { rng.below(max_delay as u64 + 1) as u32 } else { 0 },
            )
        })
        .collect()
}

fn finish(note: &str, cfg: Cfg, conn: ConnScript, gates: Vec<GateEv>, sched: Sched, horizon_ms: u64) -> H1Scenario {
    H1Scenario {
        note: note.to_string(),
        cfg,
        conns: vec![conn],
        gates,
        signal_at_ms: None,
        sched,
        horizon_ms,
        max_steps: 200_000,
    }
}

fn total_delay(segs: &[Seg]) -> u64 {
    segs.iter().map(|s| s.delay_ms as u64).sum()
}

// ------------------------------------------------------------------------------------------
// C01

pub fn gen_c01(rng: &mut Rng, idx: u64) -> H1Scenario {
    let malformed = idx % 3 == 2;
    let nreq = rng.range(1, if malformed { 3 } else { 6 });
    let opts = ReqOpts {
        allow_conn_opts: !malformed && rng.chance(1, 3),
        allow_expect: false,
        max_body: if rng.chance(1, 6) { 20000 } else { 1000 },
        ..Default::default()
    };
    let mut reqs: Vec<Req> = (0..nreq).map(|i| gen_req(rng, i as u32 + 1, &opts)).collect();
    let mut note = String::from("c01-wellformed");
    if malformed {
        let class = *rng.pick(ALL_MALFORMED);
        // the malformed request
        let mut m = gen_req(
            rng,
            90,
            &ReqOpts {
                allow_head: false,
                allow_10: false,
                allow_conn_opts: false,
                allow_expect: false,
                max_body: 300,
                body_p: 100,
            },
        );
        m.method = "POST".into();
        m.minor = 1;
        m.conn_opt = ConnOpt::Absent;
        if m.body_len == 0 {
            m.body_len = 37;
        }
        m.body_kind = BodyKind::Smuggle;
        if class.in_body() {
            m.framing = gen_chunked(rng);
        } else if matches!(m.framing, Framing::None) {
            m.framing = Framing::Cl;
        }
        match class {
            Malformed::TeOn10 => {
                m.minor = 0;
                m.conn_opt = ConnOpt::KeepAlive;
            }
            Malformed::Post10NoCl => {
                m.minor = 0;
                m.conn_opt = ConnOpt::KeepAlive;
                m.framing = Framing::None;
            }
            _ => {}
        }
        m.malformed = Some(class);
        // earlier requests must keep the connection open
        for r in reqs.iter_mut() {
            if r.minor == 0 {
                r.conn_opt = ConnOpt::KeepAlive;
            } else {
                r.conn_opt = ConnOpt::Absent;
            }
        }
        let at = rng.usize(reqs.len() + 1).min(reqs.len());
        reqs.truncate(at);
        reqs.push(m);
        reqs.push(Req {
            id: 99,
            method: "GET".into(),
            minor: 1,
            conn_opt: ConnOpt::Absent,
            expect100: false,
            headers: vec![],
            framing: Framing::None,
            body_len: 0,
            body_kind: BodyKind::Smuggle,
            malformed: None,
            target: Some("/CANARY/99".into()),
        });
        note = format!("c01-malformed-{:?}", class);
    }
    let mut conn = ConnScript {
        reqs,
        raw: None,
        segs: vec![],
        end: End::KeepOpen,
        reset_after_out: None,
        sock: gen_sock_benign(rng),
        grants: vec![],
        progs: vec![],
        start_ms: 0,
        writes_blocked_after_grants: false,
    };
    let stream = conn.stream();
    let layout = conn.layout();
    let interesting = interesting_offsets(&stream, &layout);
    let mode = if stream.len() > 100_000 {
        // oversized head: few cuts only
        if rng.chance(1, 2) { CutMode::One } else { CutMode::Random }
    } else {
        gen_cutmode(rng, stream.len())
    };
    let md = if rng.chance(1, 4) { 50 } else { 0 };
    conn.segs = gen_segs(rng, stream.len(), &interesting, mode, md);
    conn.grants = gen_grants(rng, &mut conn.sock, 0);
    // handlers stay benign (read everything, answer 200) but may be slow, so that later requests —
    // a malformed one in particular — are decoded while an earlier handler is still pending
    let mut gates = vec![];
    if rng.chance(1, 2) {
        let n = conn.reqs.len();
        for _ in 0..n {
            let mut steps = vec![];
            if rng.chance(1, 2) {
                gates.push(GateEv { at_ms: if rng.chance(1, 4) { rng.below(60) } else { 0 } });
                steps.push(Step::Gate(gates.len() - 1));
            }
            steps.push(if rng.chance(1, 4) { Step::ReadSlow } else { Step::ReadAll });
            if rng.chance(1, 3) {
                gates.push(GateEv { at_ms: if rng.chance(1, 4) { rng.below(60) } else { 0 } });
                steps.push(Step::Gate(gates.len() - 1));
            }
            conn.progs.push(Prog { steps, answer: Answer::ok_empty() });
        }
    }
    // the peer half-closes once it has everything it can expect
    let ka = Ka::Os;
    let expected = expected_answered(&conn.reqs, true);
    conn.end = End::HalfCloseAfterResponses { n: expected as u32, delay_ms: 0 };
    let cfg = Cfg {
        keep_alive: ka,
        write_buf: *rng.pick(&[1usize, 64, 1024, 32768]),
        // with a disconnect timeout the dispatcher ends an errored connection through the
        // time-bounded shutdown (flush first) instead of dropping it at once
        disc_timeout_ms: if rng.chance(1, 3) { 1000 } else { 0 },
        ..Default::default()
    };
    let horizon = total_delay(&conn.segs) + 3000 + cfg.disc_timeout_ms;
    finish(&note, cfg, conn, gates, gen_sched(rng), horizon)
}

/// Number of leading requests that must be answered with their own final response given that
/// every handler is benign: up to and including the first one that closes the connection, or the
/// malformed one (which is answered by the error response).
pub fn expected_answered(reqs: &[Req], ka_enabled: bool) -> usize {
    let mut n = 0;
    for r in reqs {
        n += 1;
        if r.malformed.is_some() || req_closes(r, ka_enabled) {
            break;
        }
    }
    n
}

// ------------------------------------------------------------------------------------------
// C02 / C03 / C04: handler programs and answers

pub const RESP_CHUNKS: &[usize] = &[0, 1, 2, 7, 100, 1000, 4096, 9000, 33000];

pub struct AnsOpts {
    pub allow_fail: bool,
    pub allow_short_long: bool,
    pub allow_empty_chunks: bool,
    pub allow_bodiless_status_with_body: bool,
    pub allow_user_framing: bool,
    pub allow_force_close: bool,
    pub allow_from_task: bool,
    pub max_chunk: usize,
}

pub fn gen_answer(rng: &mut Rng, gates: &mut Vec<GateEv>, gate_delay_max: u64, o: &AnsOpts) -> Answer {
    let status = *rng.pick(&[200u16, 200, 200, 201, 404, 500, 204, 304]);
    let bodiless = status == 204 || status == 304;
    let sizes: Vec<usize> = RESP_CHUNKS.iter().copied().filter(|c| *c <= o.max_chunk && (o.allow_empty_chunks || *c > 0)).collect();
    let nchunks = rng.range(1, 4);
    let chunks: Vec<usize> = (0..nchunks).map(|_| *rng.pick(&sizes)).collect();
    let total: usize = chunks.iter().sum();
    let mut body = if bodiless && !(o.allow_bodiless_status_with_body && rng.chance(1, 4)) {
        if rng.chance(1, 2) { BodySpec::Empty } else { BodySpec::NoneBody }
    } else {
        match rng.below(12) {
            // `body::None` is documented for responses that forbid a payload (204/304); on other
            // statuses it yields a close-delimited message by the handler's own choice
            0 | 1 => BodySpec::Empty,
            2 | 3 => BodySpec::Bytes(*rng.pick(&sizes)),
            4 | 5 => BodySpec::Sized { len: total as u64, chunks: chunks.clone() },
            6 | 7 | 8 => BodySpec::Stream { chunks: chunks.clone() },
            9 => BodySpec::Custom { claim: SizeClaim::Stream, chunks: chunks.clone() },
            10 => BodySpec::Custom { claim: SizeClaim::Sized(total as u64), chunks: chunks.clone() },
            _ => {
                if o.allow_from_task {
                    BodySpec::FromTask { chunks: chunks.iter().map(|c| (*c).max(1)).collect() }
                } else {
                    BodySpec::Stream { chunks: chunks.clone() }
                }
            }
        }
    };
    if o.allow_short_long && rng.chance(1, 10) && (!bodiless || o.allow_bodiless_status_with_body) {
        // sized body that lies about its size
        let delta = *rng.pick(&[1usize, 5, 1000]);
        let len = if rng.chance(1, 2) { total + delta } else { total.saturating_sub(delta) };
        body = if rng.chance(1, 2) {
            BodySpec::Sized { len: len as u64, chunks: chunks.clone() }
        } else {
            BodySpec::Custom { claim: SizeClaim::Sized(len as u64), chunks: chunks.clone() }
        };
    }
    let has_stream = !matches!(body, BodySpec::Empty | BodySpec::NoneBody | BodySpec::Bytes(_));
    let nch = match &body {
        BodySpec::Sized { chunks, .. } | BodySpec::Stream { chunks } | BodySpec::Custom { chunks, .. } | BodySpec::FromTask { chunks } => chunks.len(),
        _ => 0,
    };
    let mut chunk_gates = vec![];
    if has_stream && rng.chance(1, 2) {
        for _ in 0..nch {
            if rng.chance(1, 2) {
                gates.push(GateEv { at_ms: if gate_delay_max > 0 && rng.chance(1, 3) { rng.below(gate_delay_max + 1) } else { 0 } });
                chunk_gates.push(Some(gates.len() - 1));
            } else {
                chunk_gates.push(None);
            }
        }
    }
    let fail_after = if o.allow_fail && has_stream && !matches!(body, BodySpec::FromTask { .. }) && rng.chance(1, 10) { Some(rng.usize(nch + 1)) } else { None };
    let mut headers = vec![];
    if rng.chance(1, 3) {
        headers.push(("x-app".to_string(), "v".to_string()));
    }
    if o.allow_user_framing && rng.chance(1, 10) {
        match rng.below(3) {
            0 => headers.push(("content-length".to_string(), total.to_string())),
            1 => headers.push(("connection".to_string(), (*rng.pick(&["close", "keep-alive"])).to_string())),
            _ => headers.push(("transfer-encoding".to_string(), "chunked".to_string())),
        }
    }
    Answer {
        status,
        headers,
        force_close: o.allow_force_close && rng.chance(1, 12),
        body,
        chunk_gates,
        chunk_yields: if has_stream && rng.chance(1, 4) { rng.range(1, 3) as u32 } else { 0 },
        fail_after,
        as_error: rng.chance(1, 10),
    }
}

#[derive(Clone, Copy, PartialEq, Eq, Debug)]
pub enum ReadPolicy {
    /// every handler consumes its request body to the end
    AlwaysAll,
    /// any mix of none / some / all / drop / hold
    Any,
}

pub fn gen_steps(rng: &mut Rng, r: &Req, gates: &mut Vec<GateEv>, gate_delay_max: u64, policy: ReadPolicy, allow_task: bool) -> Vec<Step> {
    let mut steps = vec![];
    let mut gate = |rng: &mut Rng, gates: &mut Vec<GateEv>| {
        gates.push(GateEv { at_ms: if gate_delay_max > 0 && rng.chance(1, 3) { rng.below(gate_delay_max + 1) } else { 0 } });
        Step::Gate(gates.len() - 1)
    };
    if rng.chance(1, 3) {
        steps.push(gate(rng, gates));
    }
    let has_body = !matches!(r.framing, Framing::None);
    let read = match policy {
        ReadPolicy::AlwaysAll => match rng.below(if allow_task { 4 } else { 3 }) {
            0 | 1 => Step::ReadAll,
            2 => Step::ReadSlow,
            _ => Step::MovePayloadToTask,
        },
        ReadPolicy::Any => {
            if !has_body {
                Step::ReadAll
            } else {
                match rng.below(8) {
                    0 | 1 => Step::ReadAll,
                    2 => Step::ReadSlow,
                    3 => Step::ReadChunks(rng.range(0, 2) as u32),
                    4 => Step::DropPayload,
                    5 => Step::HoldPayload,
                    6 => Step::Yield(1),
                    _ => Step::ReadChunks(1),
                }
            }
        }
    };
    steps.push(read.clone());
    if policy == ReadPolicy::Any && has_body {
        if let Step::ReadChunks(_) = read {
            match rng.below(3) {
                0 => steps.push(Step::DropPayload),
                1 => steps.push(Step::HoldPayload),
                _ => {}
            }
        }
    }
    if rng.chance(1, 3) {
        steps.push(gate(rng, gates));
    }
    if rng.chance(1, 8) {
        steps.push(Step::Yield(rng.range(1, 3) as u32));
    }
    steps
}

pub struct ProfileOpts {
    pub prop: &'static str,
}

/// Generic "pipelined requests + scripted handlers" scenario used by C02 / C03 / C04.
pub fn gen_pipeline(rng: &mut Rng, prop: &'static str) -> H1Scenario {
    let c04 = prop == "C04";
    let c03 = prop == "C03";
    let timers = if c04 { false } else { rng.chance(1, 8) };
    let delays: u32 = if rng.chance(1, 4) { *rng.pick(&[5u32, 50, 700]) } else { 0 };
    let nreq = rng.range(1, 5);
    let ropts = ReqOpts {
        allow_head: true,
        allow_10: true,
        // C04 compares with a reference run: nothing may make the number of dispatched requests
        // depend on timing, so no request or handler ends the connection early there
        allow_conn_opts: !c04,
        allow_expect: rng.chance(1, 3),
        max_body: match rng.below(16) {
            0 | 1 => 20000,
            2 => 70000,
            _ => 1000,
        },
        body_p: if c03 { 90 } else { 50 },
    };
    let reqs: Vec<Req> = (0..nreq).map(|i| gen_req(rng, i as u32 + 1, &ropts)).collect();
    let mut gates = vec![];
    let aopts = AnsOpts {
        allow_fail: !c04 || rng.chance(1, 4),
        allow_short_long: !c04,
        allow_empty_chunks: true,
        // (a body attached to 204/304 is C02's subject; its octets would only blur C03's oracle)
        allow_bodiless_status_with_body: !c04 && !c03,
        allow_user_framing: !c04,
        allow_force_close: !c04,
        allow_from_task: c04,
        max_chunk: if rng.chance(1, 6) { 33000 } else { 1000 },
    };
    let policy = if c03 || (prop == "C02" && rng.chance(1, 3)) { ReadPolicy::Any } else { ReadPolicy::AlwaysAll };
    let progs: Vec<Prog> = reqs
        .iter()
        .map(|r| Prog {
            steps: gen_steps(rng, r, &mut gates, delays as u64, policy, c04),
            answer: gen_answer(rng, &mut gates, delays as u64, &aopts),
        })
        .collect();
    let mut sock = gen_sock_benign(rng);
    let grants = gen_grants(rng, &mut sock, delays);
    let expect = if ropts.allow_expect {
        match rng.below(6) {
            0 if !c04 => ExpectPlan::Reject(417),
            1 => {
                gates.push(GateEv { at_ms: 0 });
                ExpectPlan::GateThenAccept(gates.len() - 1)
            }
            _ => ExpectPlan::Accept,
        }
    } else {
        ExpectPlan::Accept
    };
    let mut conn = ConnScript {
        reqs,
        raw: None,
        segs: vec![],
        end: End::KeepOpen,
        reset_after_out: None,
        sock,
        grants,
        progs,
        start_ms: 0,
        writes_blocked_after_grants: false,
    };
    let stream = conn.stream();
    let layout = conn.layout();
    let interesting = interesting_offsets(&stream, &layout);
    let mode = gen_cutmode(rng, stream.len());
    conn.segs = gen_segs(rng, stream.len(), &interesting, mode, delays);
    // a client that sent `Expect: 100-continue` may wait for the interim response before the body
    if ropts.allow_expect && rng.chance(1, 2) {
        let mut ncont = 0;
        let mut extra: Vec<Seg> = Vec::new();
        for (i, r) in conn.reqs.iter().enumerate() {
            if r.expect100 {
                ncont += 1;
                let head_end = layout[i].1;
                // make sure there is a cut exactly at the end of that head, and the next segment waits
                extra.push(Seg { end: head_end, delay_ms: 0, wait: Wait::Time });
                let _ = ncont;
            }
        }
        if !extra.is_empty() {
            let mut segs = conn.segs.clone();
            segs.extend(extra.iter().cloned());
            segs.sort_by_key(|s| s.end);
            segs.dedup_by_key(|s| s.end);
            // the segment that starts at a head end of an expect request waits for the interim response
            let mut cont_seen = 0;
            for k in 0..segs.len() {
                let start = if k == 0 { 0 } else { segs[k - 1].end };
                for (i, r) in conn.reqs.iter().enumerate() {
                    if r.expect100 && layout[i].1 == start && layout[i].2 > start {
                        cont_seen += 1;
                        segs[k].wait = Wait::Continue(cont_seen);
                    }
                }
            }
            conn.segs = segs;
        }
    }
    conn.end = match rng.below(4) {
        0 => End::KeepOpen,
        1 => End::HalfClose { delay_ms: if delays > 0 { rng.below(delays as u64 + 1) as u32 } else { 0 } },
        _ => End::HalfCloseAfterResponses { n: nreq as u32, delay_ms: 0 },
    };
    let keep_alive = if timers {
        Ka::TimeoutMs(*rng.pick(&[1000u64, 5000]))
    } else if !c04 && rng.chance(1, 6) {
        Ka::Disabled
    } else {
        Ka::Os
    };
    let cfg = Cfg {
        keep_alive,
        req_timeout_ms: if timers { 5000 } else { 0 },
        disc_timeout_ms: if !c04 && rng.chance(1, 4) { *rng.pick(&[1000u64, 3000]) } else { 0 },
        half_closed: rng.chance(3, 4),
        write_buf: *rng.pick(&[1usize, 64, 1024, 32768]),
        expect,
    };
    let gate_max = gates.iter().map(|g| g.at_ms).max().unwrap_or(0);
    let horizon = total_delay(&conn.segs) + gate_max + 2000 + if timers { 12_000 } else { 0 } + cfg.disc_timeout_ms + 1000 * conn.reqs.iter().filter(|r| r.expect100).count() as u64;
    H1Scenario {
        note: format!("{}-pipeline", prop),
        cfg,
        conns: vec![conn],
        gates,
        signal_at_ms: None,
        sched: gen_sched(rng),
        horizon_ms: horizon,
        max_steps: 400_000,
    }
}

/// The same (request, handler) pair alone on a fresh connection under the trivial schedule.
pub fn solo_scenario(sc: &H1Scenario, req_idx: usize, prog: &Prog) -> H1Scenario {
    let cs = &sc.conns[0];
    let mut p = prog.clone();
    // all gates open from the start: remove waits
    p.steps.retain(|s| !matches!(s, Step::Gate(_)));
    p.answer.chunk_gates.clear();
    let r = cs.reqs[req_idx].clone();
    let len = write_req(&r).0.len();
    let expect = match sc.cfg.expect {
        ExpectPlan::GateThenAccept(_) => ExpectPlan::Accept,
        e => e,
    };
    H1Scenario {
        note: "solo-reference".into(),
        cfg: Cfg { expect, ..sc.cfg.clone() },
        conns: vec![ConnScript {
            reqs: vec![r],
            raw: None,
            segs: vec![Seg { end: len, delay_ms: 0, wait: Wait::Time }],
            end: End::HalfCloseAfterResponses { n: 1, delay_ms: 0 },
            reset_after_out: None,
            sock: SockPlan::default(),
            grants: vec![],
            progs: vec![p],
            start_ms: 0,
            writes_blocked_after_grants: false,
        }],
        gates: vec![],
        signal_at_ms: None,
        sched: Sched::default(),
        horizon_ms: 3000,
        max_steps: 100_000,
    }
}

/// The whole scenario under the trivial schedule: one segment, always-ready socket, gates open.
pub fn reference_scenario(sc: &H1Scenario) -> H1Scenario {
    let mut r = sc.clone();
    r.note = "reference".into();
    for c in r.conns.iter_mut() {
        let len = c.stream().len();
        let waits: Vec<Seg> = c.segs.iter().filter(|s| s.wait != Wait::Time).cloned().collect();
        let _ = waits;
        c.segs = vec![Seg { end: len, delay_ms: 0, wait: Wait::Time }];
        c.sock = SockPlan::default();
        c.grants = vec![];
        for p in c.progs.iter_mut() {
            p.steps.retain(|s| !matches!(s, Step::Gate(_) | Step::Yield(_)));
            p.answer.chunk_gates.clear();
            p.answer.chunk_yields = 0;
        }
        c.start_ms = 0;
    }
    for g in r.gates.iter_mut() {
        g.at_ms = 0;
    }
    if let ExpectPlan::GateThenAccept(_) = r.cfg.expect {
        r.cfg.expect = ExpectPlan::Accept;
    }
    r.sched = Sched::default();
    r
}
