//! H1 rig: oracles. Each clause is a rule id (first component of a violation signature).

use super::{gen::*, scenario::*, world::*};
use crate::{
    batch::Violation,
    resp::{self, BodyFraming, ParsedStream, Tail},
};

pub fn head_flags(cs: &ConnScript) -> Vec<bool> {
    cs.reqs.iter().map(|r| r.method == "HEAD").collect()
}

pub fn head_flags_seen(co: &ConnOut) -> Vec<bool> {
    co.seen.iter().map(|s| s.method == "HEAD").collect()
}

pub fn conn_closed(co: &ConnOut) -> bool {
    co.shutdown_called.is_some() || co.dropped.is_some()
}

/// Parse the output with HEAD flags taken from the request plan (final response j answers plan
/// item j, whether it was dispatched or answered by the expect service).
pub fn parse_out_plan(sc: &H1Scenario, ci: usize, co: &ConnOut) -> ParsedStream {
    let flags: Vec<bool> = plan(sc, ci).iter().map(|pi| sc.conns[ci].reqs[pi.req_idx].method == "HEAD").collect();
    resp::parse_stream(&co.out, &flags, conn_closed(co))
}

pub fn parse_out(co: &ConnOut) -> ParsedStream {
    resp::parse_stream(&co.out, &head_flags_seen(co), conn_closed(co))
}

fn sent_headers(r: &Req) -> Vec<(String, Vec<u8>)> {
    let mut v: Vec<(String, Vec<u8>)> = vec![("host".into(), b"sim".to_vec())];
    match r.conn_opt {
        ConnOpt::Absent => {}
        ConnOpt::Close => v.push(("connection".into(), b"close".to_vec())),
        ConnOpt::KeepAlive => v.push(("connection".into(), b"keep-alive".to_vec())),
    }
    if r.expect100 {
        v.push(("expect".into(), b"100-continue".to_vec()));
    }
    for (n, val) in &r.headers {
        v.push((n.clone(), val.trim().as_bytes().to_vec()));
    }
    match &r.framing {
        Framing::None => {}
        Framing::Cl => v.push(("content-length".into(), r.body_len.to_string().into_bytes())),
        Framing::Chunked { .. } => v.push(("transfer-encoding".into(), b"chunked".to_vec())),
    }
    v
}

/// Compare one observed request with its ground truth. `body_complete` = the handler read to the end.
pub fn seen_matches(s: &Seen, r: &Req, check_body: bool) -> Result<(), String> {
    if s.method != r.method {
        return Err(format!("method {} != {}", s.method, r.method));
    }
    if s.target != r.target() {
        return Err(format!("target {:?} != {:?}", s.target, r.target()));
    }
    if s.minor != r.minor {
        return Err(format!("version 1.{} != 1.{}", s.minor, r.minor));
    }
    // header multimap: values of one name in order
    let want = sent_headers(r);
    let mut names: Vec<&String> = want.iter().map(|(n, _)| n).collect();
    names.sort();
    names.dedup();
    let mut seen_names: Vec<&String> = s.headers.iter().map(|(n, _)| n).collect();
    seen_names.sort();
    seen_names.dedup();
    if names != seen_names {
        return Err(format!("header names {:?} != {:?}", seen_names, names));
    }
    for n in names {
        let w: Vec<&Vec<u8>> = want.iter().filter(|(k, _)| k == n).map(|(_, v)| v).collect();
        let g: Vec<&Vec<u8>> = s.headers.iter().filter(|(k, _)| k == n).map(|(_, v)| v).collect();
        if w != g {
            return Err(format!("header {} values differ: got {:?} want {:?}", n, g.iter().map(|v| String::from_utf8_lossy(v).to_string()).collect::<Vec<_>>(), w.iter().map(|v| String::from_utf8_lossy(v).to_string()).collect::<Vec<_>>()));
        }
    }
    if check_body {
        let want_body = if matches!(r.framing, Framing::None) { Vec::new() } else { r.body() };
        if s.body != want_body {
            let p = s.body.iter().zip(want_body.iter()).position(|(a, b)| a != b).unwrap_or(s.body.len().min(want_body.len()));
            return Err(format!("body differs: got {} bytes, want {} bytes, first difference at {}", s.body.len(), want_body.len(), p));
        }
        if s.body_end != BodyEnd::Eof {
            return Err(format!("body did not end cleanly: {:?}", s.body_end));
        }
    }
    Ok(())
}

/// `C01.no-byte-after-rejection` (safety, evaluated in every H1 check): no request that no
/// generator ever sent is seen by the application.
pub fn check_no_smuggle(sc: &H1Scenario, out: &H1Out, vs: &mut Vec<Violation>) {
    for (ci, co) in out.conns.iter().enumerate() {
        let cs = &sc.conns[ci];
        let malformed_at = cs.reqs.iter().position(|r| r.malformed.is_some());
        for s in &co.seen {
            if s.target.contains("SMUGGLED") {
                vs.push(Violation::new(
                    "C01.no-byte-after-rejection",
                    "smuggled-body-bytes-dispatched",
                    format!("conn {} call {}: application saw {} {} which exists only inside a request body", ci, s.idx, s.method, s.target),
                ));
            }
            let over = malformed_at.map(|m| cs.reqs[m].malformed == Some(Malformed::HeadOver128k) && co.seen.len() > m && co.seen[m].target == cs.reqs[m].target()).unwrap_or(false);
            if s.target.contains("CANARY") && malformed_at.is_some() && !over {
                vs.push(Violation::new(
                    "C01.no-byte-after-rejection",
                    format!("canary-after-{:?}", cs.reqs[malformed_at.unwrap()].malformed.unwrap()),
                    format!("conn {} call {}: request after the malformed message was dispatched ({})", ci, s.idx, s.target),
                ));
            }
        }
    }
}

/// Generic liveness-independent safety checks shared by all H1 profiles.
pub fn check_common(sc: &H1Scenario, out: &H1Out, vs: &mut Vec<Violation>) {
    check_no_smuggle(sc, out, vs);
    // (a run that exhausts its step budget is judged by C04.terminates / C06.disconnect-bounded)
    for (ci, co) in out.conns.iter().enumerate() {
        if co.write_after_shutdown {
            vs.push(Violation::new("H1.write-after-shutdown", "", format!("conn {}: poll_write after poll_shutdown completed", ci)));
        }
    }
}

/// Body of a dispatched request versus ground truth. A body that did not end cleanly is only
/// acceptable as a prefix, and only when the connection ended (`closed`).
fn body_ok(s: &Seen, r: &Req, closed: bool) -> Result<(), (String, String)> {
    let want = if matches!(r.framing, Framing::None) { Vec::new() } else { r.body() };
    match &s.body_end {
        BodyEnd::Eof => {
            if s.body != want {
                let p = s.body.iter().zip(want.iter()).position(|(a, b)| a != b).unwrap_or(s.body.len().min(want.len()));
                return Err(("body".into(), format!("body differs: got {} bytes, want {} bytes, first difference at {}", s.body.len(), want.len(), p)));
            }
            Ok(())
        }
        other => {
            if !want.starts_with(&s.body) {
                return Err(("body-prefix".into(), format!("bytes delivered ({}) are not a prefix of the sent body ({}), end {:?}", s.body.len(), want.len(), other)));
            }
            if !closed {
                return Err(("body-open".into(), format!("body of a benign read-all handler ended {:?} after {} of {} bytes although the connection is still open", other, s.body.len(), want.len())));
            }
            Ok(())
        }
    }
}

pub fn check_c01(sc: &H1Scenario, out: &H1Out) -> Vec<Violation> {
    let mut vs = Vec::new();
    check_common(sc, out, &mut vs);
    let cs = &sc.conns[0];
    let co = &out.conns[0];
    let malformed_at = cs.reqs.iter().position(|r| r.malformed.is_some());
    let ka_enabled = sc.cfg.keep_alive != Ka::Disabled;
    let p = parse_out(co);
    let finals: Vec<_> = p.resps.iter().filter(|r| !r.is_interim()).collect();
    let closed = conn_closed(co);
    // first final response that tells the client the connection ends (C02/C03 judge whether it
    // was right to say so; C01 only refuses to demand requests beyond it)
    let announced = finals.iter().position(|r| r.is_last());
    let limit = malformed_at.unwrap_or(cs.reqs.len());

    // every dispatched request before the malformed one is exactly the GT request
    for (i, s) in co.seen.iter().enumerate().take(limit) {
        let r = &cs.reqs[i];
        if let Err(e) = seen_matches(s, r, false) {
            vs.push(Violation::new("C01.seen-eq-gt", "head", format!("call {} ({} {}): {}", i, r.method, r.target(), e)));
        }
        if let Err((k, e)) = body_ok(s, r, closed) {
            vs.push(Violation::new("C01.seen-eq-gt", k, format!("call {} ({} {}): {}", i, r.method, r.target(), e)));
        }
    }
    match malformed_at {
        None => {
            if co.seen.len() > cs.reqs.len() {
                let s = &co.seen[cs.reqs.len()];
                vs.push(Violation::new("C01.seen-eq-gt", "extra-request", format!("call {}: {} {} was never sent", s.idx, s.method, s.target)));
            }
            let must = expected_answered(&cs.reqs, ka_enabled);
            if co.seen.len() < must && announced.is_none() {
                vs.push(Violation::new(
                    "C01.seen-eq-gt",
                    "missing-request",
                    format!("only {} of the first {} requests were dispatched although all bytes were delivered and no response announced the end of the connection (closed: {})", co.seen.len(), must, closed),
                ));
            }
        }
        Some(at) => {
            let class = cs.reqs[at].malformed.unwrap();
            let in_body = class.in_body();
            let early_close = announced.map(|k| k < at).unwrap_or(false);
            if early_close {
                // the server ended the connection before reaching the malformed message
                // (whether anything may still be dispatched after that announcement is C03's subject)
                return vs;
            }
            let accepted_head = co.seen.len() > at && !in_body;
            if accepted_head {
                let s = &co.seen[at];
                let d = if class == Malformed::HeadOver128k { "oversized-head-accepted-within-one-read-of-limit".to_string() } else { format!("malformed-head-dispatched-{:?}", class) };
                vs.push(Violation::new(
                    "C01.reject-4xx-close",
                    d,
                    format!("request with malformed head ({:?}, {} byte head) was dispatched to the application as {} {}", class, write_req(&cs.reqs[at]).1, s.method, s.target),
                ));
                return vs;
            }
            let want_seen = if in_body { at + 1 } else { at };
            // (actix treats bad chunk syntax like a transport error: the whole connection is torn
            // down at once, pending handlers included, so fewer requests may have been dispatched)
            if (in_body && co.seen.len() > want_seen) || (!in_body && co.seen.len() != want_seen) {
                vs.push(Violation::new(
                    "C01.reject-4xx-close",
                    format!("dispatch-count-{:?}", class),
                    format!("{} requests dispatched, expected exactly {} (malformed {:?} at position {})", co.seen.len(), want_seen, class, at),
                ));
            }
            if in_body {
                if let Some(s) = co.seen.get(at) {
                    if let Err(e) = seen_matches(s, &cs.reqs[at], false) {
                        vs.push(Violation::new("C01.seen-eq-gt", "head", format!("call {}: {}", at, e)));
                    }
                    match &s.body_end {
                        BodyEnd::Err(_) => {}
                        // the handler was dropped with the connection before it could observe the end
                        BodyEnd::NotRead | BodyEnd::Partial | BodyEnd::DroppedEarly if closed && co.task_done => {}
                        other => vs.push(Violation::new(
                            "C01.reject-4xx-close",
                            format!("bad-chunk-body-ended-{}-{:?}", match other { BodyEnd::Eof => "clean", _ => "open" }, class),
                            format!("handler of the request with malformed chunk syntax ({:?}) observed body end {:?} after {} bytes instead of an error", class, other, s.body.len()),
                        )),
                    }
                    let gt = cs.reqs[at].body();
                    if !gt.starts_with(&s.body) {
                        vs.push(Violation::new("C01.seen-eq-gt", "bad-chunk-prefix", "body bytes before the malformed chunk are not a prefix of the sent body".to_string()));
                    }
                }
                // once dispatched, a 4xx cannot be demanded (the handler may already have
                // answered); whatever follows the handler's own response must be one error response
                if finals.len() > at + 2 {
                    vs.push(Violation::new("C01.reject-4xx-close", format!("too-many-responses-{:?}", class), format!("{} final responses, at most {} expected", finals.len(), at + 2)));
                }
                if finals.len() == at + 2 && finals[at + 1].status < 400 {
                    vs.push(Violation::new("C01.reject-4xx-close", format!("second-non-error-response-{:?}", class), format!("status {}", finals[at + 1].status)));
                }
            } else {
                let last_is_4xx = finals.last().map(|r| (400..500).contains(&r.status)).unwrap_or(false);
                // the error response was handed to a buffering transport whose flush was Pending,
                // and the connection was dropped without waiting for the flush
                let lost = String::from_utf8_lossy(&co.lost_staged).to_string();
                let lost_4xx = lost.contains("HTTP/1.1 4") || lost.contains("HTTP/1.0 4");
                if !last_is_4xx && lost_4xx && closed {
                    vs.push(Violation::new(
                        "C01.reject-4xx-close",
                        // with a disconnect timeout configured the connection ends through the
                        // time-bounded shutdown, which flushes first; without one it is dropped at once
                        if sc.cfg.disc_timeout_ms == 0 { "4xx-dropped-with-unflushed-transport-buffer:no-disconnect-timeout" } else { "4xx-dropped-with-unflushed-transport-buffer" },
                        format!("malformed {:?} at position {}: the 4xx was written into the transport ({} bytes staged) but the connection was dropped while poll_flush was still Pending, so it never reached the peer", class, at, co.lost_staged.len()),
                    ));
                } else if !last_is_4xx || p.tail != Tail::Clean || finals.len() != at + 1 {
                    vs.push(Violation::new(
                        "C01.reject-4xx-close",
                        format!("no-4xx-{:?}", class),
                        format!("malformed {:?} at position {}: {} final responses, last status {:?}, tail {:?}", class, at, finals.len(), finals.last().map(|r| r.status), p.tail),
                    ));
                }
            }
            if !closed {
                vs.push(Violation::new(
                    "C01.reject-4xx-close",
                    format!("not-closed-{:?}", class),
                    format!("connection still open at quiescence after the rejection (task done: {}, result {:?})", co.task_done, co.result),
                ));
            }
        }
    }
    vs
}

// ------------------------------------------------------------------------------------------
// canonical comparison of two outputs (C04 reference run)

#[derive(Debug, PartialEq, Eq, Clone)]
pub struct CanonResp {
    pub status: u16,
    pub minor: u8,
    pub headers: Vec<(String, String)>,
    pub body: Vec<u8>,
    pub complete: bool,
}

pub fn canon(p: &ParsedStream) -> Vec<CanonResp> {
    p.resps
        .iter()
        .map(|r| {
            let mut h: Vec<(String, String)> = r.headers.iter().filter(|(n, _)| n != "date").cloned().collect();
            h.sort();
            CanonResp {
                status: r.status,
                minor: r.minor,
                headers: h,
                body: r.body.clone(),
                complete: r.complete,
            }
        })
        .collect()
}

pub fn framing_name(f: &BodyFraming) -> String {
    match f {
        BodyFraming::NoBody => "none".into(),
        BodyFraming::Chunked => "chunked".into(),
        BodyFraming::Length(n) => format!("cl={}", n),
        BodyFraming::ToClose => "to-close".into(),
    }
}

// ------------------------------------------------------------------------------------------
// C02

pub struct PlanItem {
    pub req_idx: usize,
    /// index into `seen` / `progs` (None: answered by the expect service, never dispatched)
    pub seen_idx: Option<usize>,
    pub status: u16,
}

pub fn plan(sc: &H1Scenario, ci: usize) -> Vec<PlanItem> {
    let cs = &sc.conns[ci];
    let mut v = Vec::new();
    let mut k = 0;
    for (i, r) in cs.reqs.iter().enumerate() {
        if r.malformed.is_some() {
            break;
        }
        if r.expect100 {
            if let ExpectPlan::Reject(code) = sc.cfg.expect {
                v.push(PlanItem { req_idx: i, seen_idx: None, status: code });
                continue;
            }
        }
        v.push(PlanItem { req_idx: i, seen_idx: Some(k), status: cs.prog(k).answer.status });
        k += 1;
    }
    v
}

fn body_kind_name(b: &BodySpec) -> &'static str {
    match b {
        BodySpec::Empty => "empty",
        BodySpec::NoneBody => "none",
        BodySpec::Bytes(_) => "bytes",
        BodySpec::Sized { .. } => "sized-stream",
        BodySpec::Stream { .. } => "stream",
        BodySpec::Custom { claim: SizeClaim::None, .. } => "custom-none",
        BodySpec::Custom { claim: SizeClaim::Sized(_), .. } => "custom-sized",
        BodySpec::Custom { claim: SizeClaim::Stream, .. } => "custom-stream",
        BodySpec::FromTask { .. } => "from-task",
    }
}

/// Declared size of a body spec (None = stream / no declared size).
fn declared(b: &BodySpec) -> Option<u64> {
    match b {
        BodySpec::Empty => Some(0),
        BodySpec::NoneBody => None,
        BodySpec::Bytes(n) => Some(*n as u64),
        BodySpec::Sized { len, .. } => Some(*len),
        BodySpec::Custom { claim: SizeClaim::Sized(n), .. } => Some(*n),
        _ => None,
    }
}

/// Is the body never polled by design (nothing to stream)?
fn never_polled(b: &BodySpec) -> bool {
    matches!(b, BodySpec::Empty | BodySpec::NoneBody | BodySpec::Bytes(_) | BodySpec::Custom { claim: SizeClaim::None, .. })
        || declared(b) == Some(0)
}

fn status_class(s: u16) -> &'static str {
    match s {
        204 => "204",
        304 => "304",
        100..=199 => "1xx",
        _ => "other",
    }
}

pub fn check_c02(sc: &H1Scenario, out: &H1Out) -> Vec<Violation> {
    let mut vs = Vec::new();
    check_common(sc, out, &mut vs);
    let cs = &sc.conns[0];
    let co = &out.conns[0];
    let pl = plan(sc, 0);
    let p = parse_out_plan(sc, 0, co);
    let closed = conn_closed(co);
    let finals: Vec<&resp::ParsedResp> = p.resps.iter().filter(|r| !r.is_interim()).collect();
    // the peer reset the connection, or closed its sending side while the server is configured
    // to abort on that
    let socket_faulted = co.reset_sent_at.is_some()
        || (!sc.cfg.half_closed && co.saw_eof_at.is_some())
        // the peer did not take the output within client_disconnect_timeout after shutdown began
        || co.result.as_ref().map(|r| matches!(&r.0, Err(e) if e.contains("DisconnectTimeout"))).unwrap_or(false);

    // --- self-delimiting
    if let Tail::Malformed(at, why) = &p.tail {
        // which response precedes the garbage?
        let prev = p.resps.last();
        let j = finals.len();
        let (st, kind, head) = match (prev, j.checked_sub(1).and_then(|j| pl.get(j))) {
            (Some(r), Some(pi)) => (
                status_class(r.status),
                pi.seen_idx.map(|k| body_kind_name(&cs.prog(k).answer.body)).unwrap_or("expect"),
                cs.reqs[pi.req_idx].method == "HEAD",
            ),
            _ => ("none", "none", false),
        };
        let discr = if st == "204" || st == "304" { format!("body-octets-after-{}-head", st) } else { format!("garbage-after-status={}-body={}-head={}", st, kind, head) };
        vs.push(Violation::new(
            "C02.self-delimiting",
            discr,
            format!("output is not a sequence of HTTP responses: at offset {} ({}); {} responses parsed before; bytes there: {:?}", at, why, p.resps.len(), String::from_utf8_lossy(&co.out[*at..(*at + 60).min(co.out.len())])),
        ));
        return vs;
    }

    // --- count-order: interim responses
    {
        let mut fin_idx = 0usize;
        for r in &p.resps {
            if r.is_interim() {
                let ok = r.status == 100 && pl.get(fin_idx).map(|pi| cs.reqs[pi.req_idx].expect100).unwrap_or(false);
                if !ok {
                    vs.push(Violation::new("C02.count-order", "unexpected-interim", format!("interim response {} before final response #{} whose request did not ask for it", r.status, fin_idx)));
                }
            } else {
                fin_idx += 1;
            }
        }
    }
    // --- count-order: statuses in request order, no extra response
    for (j, r) in finals.iter().enumerate() {
        match pl.get(j) {
            Some(pi) => {
                if r.status != pi.status {
                    // a connection-level error (408/400/500/431) may replace the tail
                    let conn_level = matches!(r.status, 400 | 408 | 431 | 500) && j + 1 == finals.len() && pi.seen_idx.map(|k| co.seen.get(k).map(|s| s.answered.is_none()).unwrap_or(true)).unwrap_or(false);
                    if !conn_level {
                        vs.push(Violation::new(
                            "C02.count-order",
                            "status-mismatch",
                            format!("final response #{} has status {} but request #{} ({} {}) was answered with {}", j, r.status, pi.req_idx, cs.reqs[pi.req_idx].method, cs.reqs[pi.req_idx].target(), pi.status),
                        ));
                    }
                }
            }
            None => {
                let conn_level = matches!(r.status, 400 | 408 | 431 | 500) && j + 1 == finals.len();
                if !conn_level {
                    vs.push(Violation::new("C02.count-order", "extra-response", format!("final response #{} (status {}) has no request", j, r.status)));
                }
            }
        }
    }
    // --- every answered request with a completed body has its complete response
    let mut expected_min = 0usize;
    for (j, pi) in pl.iter().enumerate() {
        let k = match pi.seen_idx {
            Some(k) => k,
            None => {
                // answered by the expect service: counts once it has been written
                if finals.len() > j {
                    expected_min += 1;
                    if finals[j].is_last() {
                        break;
                    }
                    continue;
                }
                break;
            }
        };
        let s = match co.seen.get(k) {
            Some(s) => s,
            None => break,
        };
        if s.answered.is_none() {
            break;
        }
        let a = &cs.prog(k).answer;
        let rec = co.bodies.get(k).cloned().unwrap_or_default();
        let total: u64 = rec.pulled.iter().map(|n| *n as u64).sum();
        let failed = rec.errored || declared(&a.body).map(|n| rec.ended && total < n).unwrap_or(false);
        if failed {
            break;
        }
        let done = never_polled(&a.body) || rec.ended;
        if !done {
            break;
        }
        expected_min += 1;
        if finals.get(j).map(|r| r.is_last()).unwrap_or(false) {
            break;
        }
    }
    let complete_finals = finals.iter().filter(|r| r.complete).count();
    if complete_finals < expected_min && !socket_faulted && !out.budget_exceeded {
        // cause class: the connection future ended with an error raised by a *later* response's
        // body while earlier, finished responses were still in the write buffer
        let later_body_failed = co.result.as_ref().map(|r| r.0.is_err()).unwrap_or(false)
            && pl.iter().skip(complete_finals).any(|pi| {
                pi.seen_idx
                    .map(|k| {
                        let rec = co.bodies.get(k).cloned().unwrap_or_default();
                        let total: u64 = rec.pulled.iter().map(|n| *n as u64).sum();
                        rec.errored || declared(&cs.prog(k).answer.body).map(|n| rec.ended && total < n).unwrap_or(false)
                    })
                    .unwrap_or(false)
            });
        let lost_unflushed = !co.lost_staged.is_empty() && closed;
        // keep-alive timer armed when the last response was *encoded*; it expires while the socket
        // is still accepting that response slowly and, with no disconnect timeout, the connection
        // is dropped with the rest of the write buffer
        let ka_drop = matches!(sc.cfg.keep_alive, Ka::TimeoutMs(_)) && sc.cfg.disc_timeout_ms == 0 && co.shutdown_called.is_none() && co.dropped.is_some() && co.result.as_ref().map(|r| r.0.is_ok()).unwrap_or(false) && co.seen.iter().all(|s| s.answered.is_some());
        vs.push(Violation::new(
            "C02.count-order",
            if later_body_failed && lost_unflushed && sc.cfg.disc_timeout_ms == 0 { "missing-response:buffered-responses-dropped-by-later-body-failure:unflushed-transport-no-disconnect-timeout" } else if later_body_failed { "missing-response:buffered-responses-dropped-by-later-body-failure" } else if lost_unflushed { "missing-response:dropped-with-unflushed-transport-buffer" } else if ka_drop { "missing-response:keep-alive-timer-expired-while-response-unwritten" } else { "missing-response" },
            format!("{} handlers answered and finished their bodies but only {} complete final responses were written (connection closed: {}, task done: {}, result: {:?})", expected_min, complete_finals, closed, co.task_done, co.result.as_ref().map(|r| &r.0)),
        ));
    }

    // --- body-faithful and short-or-failed-body-terminates
    for (j, r) in finals.iter().enumerate() {
        let pi = match pl.get(j) {
            Some(pi) => pi,
            None => continue,
        };
        let k = match pi.seen_idx {
            Some(k) => k,
            None => continue,
        };
        if co.seen.get(k).map(|s| s.answered.is_none()).unwrap_or(true) || r.status != pi.status {
            continue;
        }
        let a = &cs.prog(k).answer;
        let rec = co.bodies.get(k).cloned().unwrap_or_default();
        let total: usize = rec.pulled.iter().sum();
        let decl = declared(&a.body);
        let short = decl.map(|n| rec.ended && (total as u64) < n).unwrap_or(false);
        let failed = rec.errored || short;
        let kind = body_kind_name(&a.body);
        if r.framing != BodyFraming::NoBody {
            let mut want = resp_bytes(k, 0, total);
            if let Some(n) = decl {
                want.truncate(n as usize);
            }
            if matches!(a.body, BodySpec::NoneBody | BodySpec::Custom { claim: SizeClaim::None, .. }) {
                want.clear();
            }
            if r.complete {
                if r.body != want {
                    let empties = rec.pulled.iter().any(|n| *n == 0);
                    vs.push(Violation::new(
                        "C02.body-faithful",
                        format!("{}-{}{}", kind, framing_name_coarse(&r.framing), if empties { "-with-empty-chunk" } else { "" }),
                        format!("response #{}: client decodes {} bytes, the body yielded {:?} (declared {:?}); first difference at {}", j, r.body.len(), rec.pulled, decl, r.body.iter().zip(want.iter()).position(|(a, b)| a != b).unwrap_or(r.body.len().min(want.len()))),
                    ));
                } else if failed && r.framing != BodyFraming::ToClose && !(rec.errored && decl.map(|n| total as u64 >= n).unwrap_or(false)) {
                    // (an error raised after every declared octet was produced cannot be signalled any more)
                    vs.push(Violation::new(
                        "C02.short-or-failed-body-terminates",
                        format!("complete-looking-{}-{}", kind, if rec.errored { "error" } else { "short" }),
                        format!("response #{}: body {} but the client sees a complete message of {} bytes", j, if rec.errored { "failed" } else { "ended short" }, r.body.len()),
                    ));
                }
            } else if !want.starts_with(&r.body) && r.framing != BodyFraming::Chunked {
                vs.push(Violation::new("C02.body-faithful", format!("{}-partial-not-prefix", kind), format!("response #{}: truncated body is not a prefix of what the body yielded", j)));
            }
        }
        if failed && r.framing != BodyFraming::NoBody {
            if !closed && !out.budget_exceeded {
                vs.push(Violation::new(
                    "C02.short-or-failed-body-terminates",
                    format!("not-terminated-{}-{}", kind, if rec.errored { "error" } else { "short" }),
                    format!("response #{}: body {} but the connection is still open at the end of the run", j, if rec.errored { "failed" } else { "ended short" }),
                ));
            }
            if finals.len() > j + 1 {
                vs.push(Violation::new(
                    "C02.short-or-failed-body-terminates",
                    format!("response-after-failed-body-{}", kind),
                    format!("response #{} had a failed/short body yet {} more final responses follow", j, finals.len() - j - 1),
                ));
            }
        }
    }

    // --- isolation (metamorphic reference: the same request+handler alone on a fresh connection)
    let layout = cs.layout();
    for (j, r) in finals.iter().enumerate() {
        let pi = match pl.get(j) {
            Some(pi) => pi,
            None => continue,
        };
        if r.status != pi.status {
            continue;
        }
        let prog = match pi.seen_idx {
            Some(k) => cs.prog(k),
            None => Prog::benign(),
        };
        let solo = solo_scenario(sc, pi.req_idx, &prog);
        let so = run_h1(&solo, crate::rng::Tape::from_fixed(vec![], 0, true), &RunOpts { narrative: false });
        let sp = parse_out_plan(&solo, 0, &so.conns[0]);
        let sfin: Vec<&resp::ParsedResp> = sp.resps.iter().filter(|x| !x.is_interim()).collect();
        let s0 = match sfin.first() {
            Some(s) if s.status == r.status => *s,
            _ => continue,
        };
        let later = layout.get(pi.req_idx + 1).map(|l| pi.seen_idx.and_then(|k| co.seen.get(k)).map(|s| s.delivered_at_answer >= l.1).unwrap_or(false)).unwrap_or(false);
        let next_desc = cs.reqs.get(pi.req_idx + 1).map(|n| format!("{} HTTP/1.{} {:?}", n.method, n.minor, n.conn_opt)).unwrap_or_else(|| "-".into());
        let mut diff = |field: &str, got: String, want: String| {
            vs.push(Violation::new(
                "C02.isolation",
                format!("{}:{}-instead-of-{}:next-request-delivered={}", field, got, want, later),
                format!("response #{} ({} {} HTTP/1.{}, status {}): {} is {} but the same request+handler alone on a fresh connection gets {}; next pipelined request: {}", j, cs.reqs[pi.req_idx].method, cs.reqs[pi.req_idx].target(), cs.reqs[pi.req_idx].minor, r.status, field, got, want, next_desc),
            ));
        };
        if r.minor != s0.minor {
            diff("version", format!("1.{}", r.minor), format!("1.{}", s0.minor));
        }
        let fk = |f: &BodyFraming| framing_name_coarse(f);
        // a body that failed/ended short is cut: compare declared framing only
        if fk(&r.framing) != fk(&s0.framing) {
            diff("framing", fk(&r.framing).to_string(), fk(&s0.framing).to_string());
        } else if let (BodyFraming::Length(a), BodyFraming::Length(b)) = (&r.framing, &s0.framing) {
            if a != b {
                diff("content-length", "different".into(), "declared".into());
            }
        }
        // body presence on the wire (HEAD suppression): a complete response with a declared length
        // must carry exactly that many octets unless it is HEAD/204/304 — covered by the parser's
        // framing; what remains is the comparison of the header fields themselves
        let hv = |x: &resp::ParsedResp, n: &str| {
            let mut v: Vec<String> = x.header_all(n).iter().map(|s| s.to_ascii_lowercase()).collect();
            v.sort();
            v.join(",")
        };
        if hv(r, "transfer-encoding") != hv(s0, "transfer-encoding") {
            diff("transfer-encoding-header", hv(r, "transfer-encoding"), hv(s0, "transfer-encoding"));
        }
        if hv(r, "content-length").is_empty() != hv(s0, "content-length").is_empty() {
            diff("content-length-header", if hv(r, "content-length").is_empty() { "absent".into() } else { "present".into() }, if hv(s0, "content-length").is_empty() { "absent".into() } else { "present".into() });
        }
        // Connection header: only when the handler consumed its own request body completely in both runs
        let consumed = |c: &ConnOut, k: Option<usize>| match k {
            None => false,
            Some(k) => c.seen.get(k).map(|s| s.body_end == BodyEnd::Eof).unwrap_or(false),
        };
        if consumed(co, pi.seen_idx) && consumed(&so.conns[0], Some(0)) && hv(r, "connection") != hv(s0, "connection") {
            let g = hv(r, "connection");
            let w = hv(s0, "connection");
            diff("connection-header", if g.is_empty() { "absent".into() } else { g }, if w.is_empty() { "absent".into() } else { w });
        }
    }
    vs
}

pub fn framing_name_coarse(f: &BodyFraming) -> &'static str {
    match f {
        BodyFraming::NoBody => "no-body",
        BodyFraming::Chunked => "chunked",
        BodyFraming::Length(_) => "content-length",
        BodyFraming::ToClose => "to-close",
    }
}
