//! H1 rig: oracles. Each clause is a rule id (first component of a violation signature).

use super::{gen::*, scenario::*, world::*};
use crate::{
    batch::Violation,
    resp::{self, BodyFraming, ParsedStream, Tail},
};

pub fn head_flags(cs: &ConnScript) -> Vec<bool> {
    cs.reqs.iter().map(|r| r.method == "HEAD").collect()
}

pub fn head_flags_seen(co: &ConnOut) -> Vec<bool> {
    co.seen.iter().map(|s| s.method == "HEAD").collect()
}

pub fn conn_closed(co: &ConnOut) -> bool {
    co.shutdown_called.is_some() || co.dropped.is_some()
}

pub fn parse_out(co: &ConnOut) -> ParsedStream {
    resp::parse_stream(&co.out, &head_flags_seen(co), conn_closed(co))
}

fn sent_headers(r: &Req) -> Vec<(String, Vec<u8>)> {
    let mut v: Vec<(String, Vec<u8>)> = vec![("host".into(), b"sim".to_vec())];
    match r.conn_opt {
        ConnOpt::Absent => {}
        ConnOpt::Close => v.push(("connection".into(), b"close".to_vec())),
        ConnOpt::KeepAlive => v.push(("connection".into(), b"keep-alive".to_vec())),
    }
    if r.expect100 {
        v.push(("expect".into(), b"100-continue".to_vec()));
    }
    for (n, val) in &r.headers {
        v.push((n.clone(), val.trim().as_bytes().to_vec()));
    }
    match &r.framing {
        Framing::None => {}
        Framing::Cl => v.push(("content-length".into(), r.body_len.to_string().into_bytes())),
        Framing::Chunked { .. } => v.push(("transfer-encoding".into(), b"chunked".to_vec())),
    }
    v
}

/// Compare one observed request with its ground truth. `body_complete` = the handler read to the end.
pub fn seen_matches(s: &Seen, r: &Req, check_body: bool) -> Result<(), String> {
    if s.method != r.method {
        return Err(format!("method {} != {}", s.method, r.method));
    }
    if s.target != r.target() {
        return Err(format!("target {:?} != {:?}", s.target, r.target()));
    }
    if s.minor != r.minor {
        return Err(format!("version 1.{} != 1.{}", s.minor, r.minor));
    }
    // header multimap: values of one name in order
    let want = sent_headers(r);
    let mut names: Vec<&String> = want.iter().map(|(n, _)| n).collect();
    names.sort();
    names.dedup();
    let mut seen_names: Vec<&String> = s.headers.iter().map(|(n, _)| n).collect();
    seen_names.sort();
    seen_names.dedup();
    if names != seen_names {
        return Err(format!("header names {:?} != {:?}", seen_names, names));
    }
    for n in names {
        let w: Vec<&Vec<u8>> = want.iter().filter(|(k, _)| k == n).map(|(_, v)| v).collect();
        let g: Vec<&Vec<u8>> = s.headers.iter().filter(|(k, _)| k == n).map(|(_, v)| v).collect();
        if w != g {
            return Err(format!("header {} values differ: got {:?} want {:?}", n, g.iter().map(|v| String::from_utf8_lossy(v).to_string()).collect::<Vec<_>>(), w.iter().map(|v| String::from_utf8_lossy(v).to_string()).collect::<Vec<_>>()));
        }
    }
    if check_body {
        let want_body = if matches!(r.framing, Framing::None) { Vec::new() } else { r.body() };
        if s.body != want_body {
            let p = s.body.iter().zip(want_body.iter()).position(|(a, b)| a != b).unwrap_or(s.body.len().min(want_body.len()));
            return Err(format!("body differs: got {} bytes, want {} bytes, first difference at {}", s.body.len(), want_body.len(), p));
        }
        if s.body_end != BodyEnd::Eof {
            return Err(format!("body did not end cleanly: {:?}", s.body_end));
        }
    }
    Ok(())
}

/// `C01.no-byte-after-rejection` (safety, evaluated in every H1 check): no request that no
/// generator ever sent is seen by the application.
pub fn check_no_smuggle(sc: &H1Scenario, out: &H1Out, vs: &mut Vec<Violation>) {
    for (ci, co) in out.conns.iter().enumerate() {
        let cs = &sc.conns[ci];
        let malformed_at = cs.reqs.iter().position(|r| r.malformed.is_some());
        for s in &co.seen {
            if s.target.contains("SMUGGLED") {
                vs.push(Violation::new(
                    "C01.no-byte-after-rejection",
                    "smuggled-body-bytes-dispatched",
                    format!("conn {} call {}: application saw {} {} which exists only inside a request body", ci, s.idx, s.method, s.target),
                ));
            }
            let over = malformed_at.map(|m| cs.reqs[m].malformed == Some(Malformed::HeadOver128k) && co.seen.len() > m && co.seen[m].target == cs.reqs[m].target()).unwrap_or(false);
            if s.target.contains("CANARY") && malformed_at.is_some() && !over {
                vs.push(Violation::new(
                    "C01.no-byte-after-rejection",
                    format!("canary-after-{:?}", cs.reqs[malformed_at.unwrap()].malformed.unwrap()),
                    format!("conn {} call {}: request after the malformed message was dispatched ({})", ci, s.idx, s.target),
                ));
            }
        }
    }
}

/// Generic liveness-independent safety checks shared by all H1 profiles.
pub fn check_common(sc: &H1Scenario, out: &H1Out, vs: &mut Vec<Violation>) {
    check_no_smuggle(sc, out, vs);
    if out.budget_exceeded {
        vs.push(Violation::new("H1.step-budget-exceeded", "", format!("run did not finish within {} simulator steps", sc.max_steps)));
    }
    for (ci, co) in out.conns.iter().enumerate() {
        if co.write_after_shutdown {
            vs.push(Violation::new("H1.write-after-shutdown", "", format!("conn {}: poll_write after poll_shutdown completed", ci)));
        }
    }
}

/// Body of a dispatched request versus ground truth. A body that did not end cleanly is only
/// acceptable as a prefix, and only when the connection ended (`closed`).
fn body_ok(s: &Seen, r: &Req, closed: bool) -> Result<(), (String, String)> {
    let want = if matches!(r.framing, Framing::None) { Vec::new() } else { r.body() };
    match &s.body_end {
        BodyEnd::Eof => {
            if s.body != want {
                let p = s.body.iter().zip(want.iter()).position(|(a, b)| a != b).unwrap_or(s.body.len().min(want.len()));
                return Err(("body".into(), format!("body differs: got {} bytes, want {} bytes, first difference at {}", s.body.len(), want.len(), p)));
            }
            Ok(())
        }
        other => {
            if !want.starts_with(&s.body) {
                return Err(("body-prefix".into(), format!("bytes delivered ({}) are not a prefix of the sent body ({}), end {:?}", s.body.len(), want.len(), other)));
            }
            if !closed {
                return Err(("body-open".into(), format!("body of a benign read-all handler ended {:?} after {} of {} bytes although the connection is still open", other, s.body.len(), want.len())));
            }
            Ok(())
        }
    }
}

pub fn check_c01(sc: &H1Scenario, out: &H1Out) -> Vec<Violation> {
    let mut vs = Vec::new();
    check_common(sc, out, &mut vs);
    let cs = &sc.conns[0];
    let co = &out.conns[0];
    let malformed_at = cs.reqs.iter().position(|r| r.malformed.is_some());
    let ka_enabled = sc.cfg.keep_alive != Ka::Disabled;
    let p = parse_out(co);
    let finals: Vec<_> = p.resps.iter().filter(|r| !r.is_interim()).collect();
    let closed = conn_closed(co);
    // first final response that tells the client the connection ends (C02/C03 judge whether it
    // was right to say so; C01 only refuses to demand requests beyond it)
    let announced = finals.iter().position(|r| r.is_last());
    let limit = malformed_at.unwrap_or(cs.reqs.len());

    // every dispatched request before the malformed one is exactly the GT request
    for (i, s) in co.seen.iter().enumerate().take(limit) {
        let r = &cs.reqs[i];
        if let Err(e) = seen_matches(s, r, false) {
            vs.push(Violation::new("C01.seen-eq-gt", "head", format!("call {} ({} {}): {}", i, r.method, r.target(), e)));
        }
        if let Err((k, e)) = body_ok(s, r, closed) {
            vs.push(Violation::new("C01.seen-eq-gt", k, format!("call {} ({} {}): {}", i, r.method, r.target(), e)));
        }
    }
    match malformed_at {
        None => {
            if co.seen.len() > cs.reqs.len() {
                let s = &co.seen[cs.reqs.len()];
                vs.push(Violation::new("C01.seen-eq-gt", "extra-request", format!("call {}: {} {} was never sent", s.idx, s.method, s.target)));
            }
            let must = expected_answered(&cs.reqs, ka_enabled);
            if co.seen.len() < must && announced.is_none() {
                vs.push(Violation::new(
                    "C01.seen-eq-gt",
                    "missing-request",
                    format!("only {} of the first {} requests were dispatched although all bytes were delivered and no response announced the end of the connection (closed: {})", co.seen.len(), must, closed),
                ));
            }
        }
        Some(at) => {
            let class = cs.reqs[at].malformed.unwrap();
            let in_body = class.in_body();
            let early_close = announced.map(|k| k < at).unwrap_or(false);
            if early_close {
                // the server ended the connection before reaching the malformed message
                // (whether anything may still be dispatched after that announcement is C03's subject)
                return vs;
            }
            let accepted_head = co.seen.len() > at && !in_body;
            if accepted_head {
                let s = &co.seen[at];
                let d = if class == Malformed::HeadOver128k { "oversized-head-accepted-within-one-read-of-limit".to_string() } else { format!("malformed-head-dispatched-{:?}", class) };
                vs.push(Violation::new(
                    "C01.reject-4xx-close",
                    d,
                    format!("request with malformed head ({:?}, {} byte head) was dispatched to the application as {} {}", class, write_req(&cs.reqs[at]).1, s.method, s.target),
                ));
                return vs;
            }
            let want_seen = if in_body { at + 1 } else { at };
            if co.seen.len() != want_seen {
                vs.push(Violation::new(
                    "C01.reject-4xx-close",
                    format!("dispatch-count-{:?}", class),
                    format!("{} requests dispatched, expected exactly {} (malformed {:?} at position {})", co.seen.len(), want_seen, class, at),
                ));
            }
            if in_body {
                if let Some(s) = co.seen.get(at) {
                    if let Err(e) = seen_matches(s, &cs.reqs[at], false) {
                        vs.push(Violation::new("C01.seen-eq-gt", "head", format!("call {}: {}", at, e)));
                    }
                    match &s.body_end {
                        BodyEnd::Err(_) => {}
                        other => vs.push(Violation::new(
                            "C01.reject-4xx-close",
                            format!("bad-chunk-body-ended-{}-{:?}", match other { BodyEnd::Eof => "clean", _ => "open" }, class),
                            format!("handler of the request with malformed chunk syntax ({:?}) observed body end {:?} after {} bytes instead of an error", class, other, s.body.len()),
                        )),
                    }
                    let gt = cs.reqs[at].body();
                    if !gt.starts_with(&s.body) {
                        vs.push(Violation::new("C01.seen-eq-gt", "bad-chunk-prefix", "body bytes before the malformed chunk are not a prefix of the sent body".to_string()));
                    }
                }
                // once dispatched, a 4xx cannot be demanded (the handler may already have
                // answered); whatever follows the handler's own response must be one error response
                if finals.len() > at + 2 {
                    vs.push(Violation::new("C01.reject-4xx-close", format!("too-many-responses-{:?}", class), format!("{} final responses, at most {} expected", finals.len(), at + 2)));
                }
                if finals.len() == at + 2 && finals[at + 1].status < 400 {
                    vs.push(Violation::new("C01.reject-4xx-close", format!("second-non-error-response-{:?}", class), format!("status {}", finals[at + 1].status)));
                }
            } else {
                let last_is_4xx = finals.last().map(|r| (400..500).contains(&r.status)).unwrap_or(false);
                if !last_is_4xx || p.tail != Tail::Clean || finals.len() != at + 1 {
                    vs.push(Violation::new(
                        "C01.reject-4xx-close",
                        format!("no-4xx-{:?}", class),
                        format!("malformed {:?} at position {}: {} final responses, last status {:?}, tail {:?}", class, at, finals.len(), finals.last().map(|r| r.status), p.tail),
                    ));
                }
            }
            if !closed {
                vs.push(Violation::new(
                    "C01.reject-4xx-close",
                    format!("not-closed-{:?}", class),
                    format!("connection still open at quiescence after the rejection (task done: {}, result {:?})", co.task_done, co.result),
                ));
            }
        }
    }
    vs
}

// ------------------------------------------------------------------------------------------
// canonical comparison of two outputs (C04 reference run)

#[derive(Debug, PartialEq, Eq, Clone)]
pub struct CanonResp {
    pub status: u16,
    pub minor: u8,
    pub headers: Vec<(String, String)>,
    pub body: Vec<u8>,
    pub complete: bool,
}

pub fn canon(p: &ParsedStream) -> Vec<CanonResp> {
    p.resps
        .iter()
        .map(|r| {
            let mut h: Vec<(String, String)> = r.headers.iter().filter(|(n, _)| n != "date").cloned().collect();
            h.sort();
            CanonResp {
                status: r.status,
                minor: r.minor,
                headers: h,
                body: r.body.clone(),
                complete: r.complete,
            }
        })
        .collect()
}

pub fn framing_name(f: &BodyFraming) -> String {
    match f {
        BodyFraming::NoBody => "none".into(),
        BodyFraming::Chunked => "chunked".into(),
        BodyFraming::Length(n) => format!("cl={}", n),
        BodyFraming::ToClose => "to-close".into(),
    }
}
