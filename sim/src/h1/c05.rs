//! C05: per-connection memory is bounded by configuration, not by the peer.
//!
//! Black-box accounting after every simulator step:
//!   read-ahead  = bytes taken from the socket − body bytes handed to handlers − head bytes of
//!                 dispatched requests   (everything the connection holds unparsed, queued or
//!                 buffered ahead of the application)
//!   write-ahead = bytes pulled from response bodies − bytes accepted by the socket
//! The peer respects a TCP-like window (`Wait::InboxBelow`), so whatever the server does not read
//! stays with the peer.

use super::{gen::*, oracle::*, scenario::*, world::*};
use crate::{
    batch::Violation,
    resp,
    rng::Rng,
    sock::{CapMode, SockPlan},
};

/// Documented limits: 128 KiB of unparsed input (decoder), one 8 KiB read on top of it, 32 KiB of
/// request body buffered in the payload channel, 16 queued requests. The bound leaves a 2x margin
/// on the sum so that a genuine constant-factor change does not alarm but growth with the input does.
pub const READ_AHEAD_BOUND: i64 = 2 * (2 * 131_072) + 32_768 + 98_304;

fn window_segs(len: usize, seg: usize, window: u32, delay: u32) -> Vec<Seg> {
    let mut v = Vec::new();
    let mut off = 0;
    while off < len {
        off = (off + seg).min(len);
        v.push(Seg { end: off, delay_ms: delay, wait: Wait::InboxBelow(window) });
    }
    v
}

fn req(id: u32, method: &str, framing: Framing, body_len: usize) -> Req {
    Req {
        id,
        method: method.into(),
        minor: 1,
        conn_opt: ConnOpt::Absent,
        expect100: false,
        headers: vec![],
        framing,
        body_len,
        body_kind: BodyKind::Smuggle,
        malformed: None,
        target: None,
    }
}

pub fn gen_c05(rng: &mut Rng, idx: u64) -> H1Scenario {
    let kind = idx % 5;
    let mut cfg = Cfg::default();
    cfg.write_buf = *rng.pick(&[1usize, 64, 1024, 8192, 32768, 131072]);
    let scale = *rng.pick(&[1usize, 1, 2, 4]);
    let mut gates = vec![];
    let seg = *rng.pick(&[1000usize, 1024, 8191, 16384, 65536]);
    let window = *rng.pick(&[16_384u32, 65_536, 262_144]);
    let mut conn = ConnScript {
        reqs: vec![],
        raw: None,
        segs: vec![],
        end: End::KeepOpen,
        reset_after_out: None,
        sock: SockPlan::default(),
        grants: vec![],
        progs: vec![],
        start_ms: 0,
        writes_blocked_after_grants: false,
    };
    conn.sock.read_mode = match rng.below(4) {
        0 => CapMode::Rand(300),
        1 => CapMode::Rand(5000),
        _ => CapMode::Full,
    };
    let note;
    match kind {
        0 => {
            // a head that never ends: endless header lines
            let mut raw = b"GET /r/1 HTTP/1.1\r\nhost: sim\r\n".to_vec();
            let total = 400_000 * scale;
            let line_len = *rng.pick(&[20usize, 200, 3000]);
            let mut i = 0;
            while raw.len() < total {
                raw.extend_from_slice(format!("x-h-{}: ", i).as_bytes());
                raw.extend(std::iter::repeat(b'a').take(line_len));
                raw.extend_from_slice(b"\r\n");
                i += 1;
            }
            conn.reqs = vec![req(1, "GET", Framing::None, 0)];
            conn.segs = window_segs(raw.len(), seg, window, 0);
            conn.raw = Some(raw);
            note = "c05-endless-head";
        }
        1 | 2 => {
            // huge body against a handler that does not read for a long while / reads slowly
            let body_len = 1_000_000 * scale;
            let framing = if rng.chance(1, 2) {
                Framing::Cl
            } else {
                Framing::Chunked {
                    sizes: vec![*rng.pick(&[100usize, 4096, 65536, 300_000])],
                    exts: vec![None],
                    upper: false,
                    lead_zeros: 0,
                    lws: false,
                    last_ext: None,
                }
            };
            conn.reqs = vec![req(1, "POST", framing, body_len), req(2, "GET", Framing::None, 0)];
            let steps = if kind == 1 {
                gates.push(GateEv { at_ms: 2000 });
                match rng.below(3) {
                    0 => vec![Step::HoldPayload, Step::Gate(0)],
                    1 => vec![Step::ReadChunks(1), Step::Gate(0), Step::ReadAll],
                    _ => vec![Step::Gate(0), Step::ReadSlow],
                }
            } else {
                match rng.below(2) {
                    0 => vec![Step::ReadSlow],
                    _ => vec![Step::MovePayloadToTask],
                }
            };
            conn.progs = vec![Prog { steps, answer: Answer::ok_empty() }];
            let len = conn.stream().len();
            conn.segs = window_segs(len, seg, window, 0);
            note = if kind == 1 { "c05-body-unread" } else { "c05-body-slow" };
        }
        3 => {
            // thousands of tiny pipelined requests behind a stalled first handler
            let n = 20_000 * scale;
            gates.push(GateEv { at_ms: 2000 });
            let mut raw = Vec::new();
            // optionally every k-th request carries a small body, so that socket segments end
            // inside bodies and the "current payload" state is exercised while the queue is full
            let with_bodies = if rng.chance(2, 3) { Some(rng.range(1, 8)) } else { None };
            let blen = *rng.pick(&[10usize, 500, 3000]);
            let n = if with_bodies.is_some() && blen > 10 { n / 20 } else { n };
            let body: String = (0..blen).map(|j| (b'0' + (j % 10) as u8) as char).collect();
            for i in 0..n {
                match with_bodies {
                    Some(k) if i > 0 && i % k == 0 => raw.extend_from_slice(format!("POST /r/{} HTTP/1.1\r\nhost: sim\r\ncontent-length: {}\r\n\r\n{}", i + 1, blen, body).as_bytes()),
                    _ => raw.extend_from_slice(format!("GET /r/{} HTTP/1.1\r\nhost: sim\r\n\r\n", i + 1).as_bytes()),
                }
            }
            // only the first few are described as GT (the oracle here is about volume)
            conn.reqs = vec![req(1, "GET", Framing::None, 0)];
            conn.progs = vec![Prog { steps: vec![Step::Gate(0)], answer: Answer::ok_empty() }];
            conn.segs = window_segs(raw.len(), seg, window, 0);
            conn.raw = Some(raw);
            note = "c05-pipeline-flood";
        }
        _ => {
            // multi-MB streaming response against a slow socket
            let chunk = *rng.pick(&[100usize, 4096, 9000, 65536, 200_000]);
            let total = 2_000_000 * scale;
            let chunks = vec![chunk; total / chunk + 1];
            conn.reqs = vec![req(1, "GET", Framing::None, 0)];
            let body = match rng.below(3) {
                0 => BodySpec::Stream { chunks: chunks.clone() },
                1 => BodySpec::Sized { len: chunks.iter().sum::<usize>() as u64, chunks: chunks.clone() },
                _ => BodySpec::Custom { claim: SizeClaim::Stream, chunks: chunks.clone() },
            };
            let mut a = Answer::ok_empty();
            a.body = body;
            conn.progs = vec![Prog { steps: vec![], answer: a }];
            let len = conn.stream().len();
            conn.segs = vec![Seg { end: len, delay_ms: 0, wait: Wait::Time }];
            conn.sock.gated_writes = true;
            conn.sock.write_mode = match rng.below(3) {
                0 => CapMode::Byte1,
                1 => CapMode::Rand(1000),
                _ => CapMode::Full,
            };
            let g = *rng.pick(&[1usize, 100, 4096, 70_000]);
            conn.grants = (0..40).map(|_| (g, if rng.chance(1, 4) { 10 } else { 0 })).collect();
            note = "c05-slow-writer";
        }
    }
    H1Scenario {
        note: note.to_string(),
        cfg,
        conns: vec![conn],
        gates,
        signal_at_ms: None,
        sched: Sched::default(),
        horizon_ms: 3000,
        max_steps: 300_000,
    }
}

pub fn check_c05(sc: &H1Scenario, out: &H1Out) -> Vec<Violation> {
    let mut vs = Vec::new();
    let cs = &sc.conns[0];
    let co = &out.conns[0];
    if co.max_read_ahead > READ_AHEAD_BOUND {
        vs.push(Violation::new(
            "C05.read-ahead",
            sc.note.clone(),
            format!(
                "the connection held {} bytes taken from the socket but not yet handed to the application (bound {}; {} bytes read in total, {} dispatched requests); the socket should simply stop being read",
                co.max_read_ahead,
                READ_AHEAD_BOUND,
                co.read_total,
                co.seen.len()
            ),
        ));
    }
    let max_chunk = cs.progs.iter().flat_map(|p| p.answer.chunks()).max().unwrap_or(0) as i64;
    let wbound = sc.cfg.write_buf as i64 + max_chunk + 8192;
    if co.max_write_ahead > wbound {
        vs.push(Violation::new(
            "C05.write-ahead",
            sc.note.clone(),
            format!("{} response-body bytes were pulled ahead of the socket (bound: write buffer {} + largest chunk {} + 8192)", co.max_write_ahead, sc.cfg.write_buf, max_chunk),
        ));
    }
    if sc.note == "c05-endless-head" {
        let p = resp::parse_stream(&co.out, &[], conn_closed(co));
        let ok = p.resps.len() == 1 && p.resps[0].status == 431 && conn_closed(co);
        if !ok {
            vs.push(Violation::new(
                "C05.head-431",
                "",
                format!("an endless request head was not refused with 431 + close: responses {:?}, closed {}, {} bytes read", p.resps.iter().map(|r| r.status).collect::<Vec<_>>(), conn_closed(co), co.read_total),
            ));
        }
        if co.seen.len() > 0 {
            vs.push(Violation::new("C05.head-431", "dispatched", "an endless head was dispatched".to_string()));
        }
    }
    if out.budget_exceeded {
        vs.push(Violation::new("C05.progress", sc.note.clone(), format!("scenario did not finish within {} steps", sc.max_steps)));
    }
    vs
}
