//! H1 rig: oracles for C03 (reuse discipline) and C04 (progress).

use super::{gen::*, oracle::*, scenario::*, world::*};
use crate::{
    batch::Violation,
    resp::{self, Tail},
    rng::Tape,
};

/// Simulator step at which the byte at `off` of the output was accepted by the socket.
pub fn step_of_offset(co: &ConnOut, off: usize) -> Option<(u64, u64)> {
    co.marks.iter().find(|m| off >= m.off && off < m.off + m.len).map(|m| (m.ms, m.step))
}

/// Simulator step of the socket read that consumed stream offset `off`.
pub fn read_step_of(co: &ConnOut, off: usize) -> Option<u64> {
    let mut tot = 0usize;
    for (_, step, n) in &co.reads {
        tot += n;
        if tot > off {
            return Some(*step);
        }
    }
    None
}

fn close_cause(sc: &H1Scenario, cs: &ConnScript, co: &ConnOut, pi: &PlanItem) -> &'static str {
    let r = &cs.reqs[pi.req_idx];
    if pi.seen_idx.is_none() {
        return "expect-rejected";
    }
    if sc.cfg.keep_alive == Ka::Disabled {
        return "keep-alive-disabled";
    }
    if r.conn_opt == ConnOpt::Close {
        return "request-connection-close";
    }
    if r.minor == 0 && r.conn_opt != ConnOpt::KeepAlive {
        return "http10-without-keep-alive";
    }
    let k = pi.seen_idx.unwrap();
    let a = &cs.prog(k).answer;
    if a.force_close {
        return "handler-force-close";
    }
    let unread = co.seen.get(k).map(|s| s.body_end != BodyEnd::Eof).unwrap_or(false);
    if unread {
        return "request-body-left-unread";
    }
    "other"
}

pub fn check_c03(sc: &H1Scenario, out: &H1Out) -> Vec<Violation> {
    let mut vs = Vec::new();
    check_no_smuggle(sc, out, &mut vs);
    let cs = &sc.conns[0];
    let co = &out.conns[0];
    let pl = plan(sc, 0);
    let p = parse_out_plan(sc, 0, co);
    let finals: Vec<&resp::ParsedResp> = p.resps.iter().filter(|r| !r.is_interim()).collect();
    let layout = cs.layout();

    // --- reuse-only-after-exact-end: every dispatched request is exactly the next GT request
    let dispatched: Vec<&PlanItem> = pl.iter().filter(|pi| pi.seen_idx.is_some()).collect();
    for (k, s) in co.seen.iter().enumerate() {
        match dispatched.get(k) {
            None => vs.push(Violation::new("C03.reuse-only-after-exact-end", "extra-request", format!("call {}: {} {} does not correspond to any request sent", k, s.method, s.target))),
            Some(pi) => {
                let r = &cs.reqs[pi.req_idx];
                if let Err(e) = seen_matches(s, r, false) {
                    let prev_unread = k > 0 && co.seen[k - 1].body_end != BodyEnd::Eof;
                    vs.push(Violation::new(
                        "C03.reuse-only-after-exact-end",
                        format!("head-mismatch:previous-body-unread={}", prev_unread),
                        format!("call {} should be {} {}: {}", k, r.method, r.target(), e),
                    ));
                }
                if s.body_end == BodyEnd::Eof {
                    let want = if matches!(r.framing, Framing::None) { Vec::new() } else { r.body() };
                    if s.body != want {
                        vs.push(Violation::new("C03.reuse-only-after-exact-end", "body-mismatch", format!("call {} ({} {}): body of {} bytes differs from the {} bytes sent", k, r.method, r.target(), s.body.len(), want.len())));
                    }
                } else {
                    let want = if matches!(r.framing, Framing::None) { Vec::new() } else { r.body() };
                    if !want.starts_with(&s.body) {
                        vs.push(Violation::new("C03.reuse-only-after-exact-end", "body-prefix-mismatch", format!("call {}: bytes read are not a prefix of the body sent", k)));
                    }
                }
            }
        }
    }

    // --- nothing-after-close
    if let Some(j) = finals.iter().position(|r| r.is_last()) {
        let r = finals[j];
        let cause = pl.get(j).map(|pi| close_cause(sc, cs, co, pi)).unwrap_or("connection-level-error-response");
        let close_at = step_of_offset(co, r.start).map(|x| x.1).unwrap_or(u64::MAX);
        // Had the follower started to arrive before the closing response was completely written?
        // (The known defect processes what is already pipelined behind the closing response; a
        // follower that only arrives once the closing response is on the wire is a different matter.)
        // (a closing response whose last byte never reached the wire was never "completely written")
        let close_done = if r.complete { step_of_offset(co, r.end.max(r.start + 1) - 1).map(|x| x.1).unwrap_or(u64::MAX) } else { u64::MAX };
        // the server can only shut down once the closing response is written and the closing
        // request has been read to its end; was the follower read by then (same poll or earlier)?
        let own_end_read = pl.get(j).and_then(|n| layout.get(n.req_idx)).and_then(|l| read_step_of(co, l.2.saturating_sub(1))).unwrap_or(0);
        // … and its body stream has been polled to the end (for HEAD the head is the whole response)
        let body_done = pl.get(j).and_then(|n| n.seen_idx).and_then(|k| co.bodies.get(k)).and_then(|b| b.dropped).map(|d| d.1).unwrap_or(0);
        // (when the close is *because* the request body was left unread, the server does not wait
        // for the rest of that body: it may shut down as soon as the response is out)
        let idle_from = if cause == "request-body-left-unread" { close_done.max(body_done) } else { close_done.max(own_end_read).max(body_done) };
        // … and the connection task has been parked since (nothing runnable, no flush outstanding):
        // from that point on the server has had every chance to act on the close
        let idle_from = co.parked_steps.iter().copied().find(|s| *s >= idle_from).unwrap_or(u64::MAX);
        let follower_received = pl
            .get(j + 1)
            .and_then(|n| layout.get(n.req_idx))
            .and_then(|l| read_step_of(co, l.0))
            .map(|st| st <= idle_from)
            .unwrap_or(false);
        let _ = close_at;
        // (a) nothing further written
        if finals.len() > j + 1 {
            let nxt = finals[j + 1];
            let is_err = pl.get(j + 1).is_none() || (pl.get(j + 1).map(|pi| pi.status != nxt.status).unwrap_or(false) && matches!(nxt.status, 400 | 408 | 431 | 500));
            vs.push(Violation::new(
                "C03.nothing-after-close",
                format!("cause={}:followed-by={}:follower-read-before-server-could-shut-down={}", cause, if is_err { "queued-error-response" } else { "pipelined-response" }, follower_received),
                format!(
                    "final response #{} (status {}, HTTP/1.{}, connection: {:?}) tells the client the connection ends, yet {} more final response(s) follow (next status {}; follower received before the closing head was written: {})",
                    j,
                    r.status,
                    r.minor,
                    r.header_all("connection"),
                    finals.len() - j - 1,
                    nxt.status,
                    follower_received
                ),
            ));
        } else if matches!(p.tail, Tail::Malformed(..)) || p.resps.last().map(|l| l.end < co.out.len()).unwrap_or(false) {
            vs.push(Violation::new("C03.nothing-after-close", format!("cause={}:followed-by=bytes:follower-read-before-server-could-shut-down={}", cause, follower_received), format!("bytes written after the closing response #{} (follower received before the closing head was written: {})", j, follower_received)));
        }
        // (b) no further dispatch
        let closing_seen = pl.iter().take(j + 1).filter(|pi| pi.seen_idx.is_some()).count();
        if co.seen.len() > closing_seen && finals.len() <= j + 1 {
            let s = &co.seen[closing_seen];
            vs.push(Violation::new(
                "C03.nothing-after-close",
                format!("cause={}:followed-by=pipelined-dispatch-without-response:follower-read-before-server-could-shut-down={}", cause, follower_received),
                format!("after the closing response #{} the application was still called with {} {} (step {}, closing head written at step {})", j, s.method, s.target, s.call_step, close_at),
            ));
        }
    }

    // --- close-or-exact is implied by the two clauses above together with no-byte-after-rejection:
    // after an early response the connection is either not used again, or the next dispatched
    // request is byte-exactly the next GT request.
    vs
}

// ------------------------------------------------------------------------------------------
// C04

fn legit_cut(sc: &H1Scenario, co: &ConnOut) -> bool {
    co.reset_sent_at.is_some()
        || (!sc.cfg.half_closed && co.saw_eof_at.is_some())
        || co.result.as_ref().map(|r| r.0.is_err()).unwrap_or(false)
}

pub fn check_c04(sc: &H1Scenario, out: &H1Out) -> Vec<Violation> {
    let mut vs = Vec::new();
    check_no_smuggle(sc, out, &mut vs);
    let cs = &sc.conns[0];
    let co = &out.conns[0];

    // --- no-lost-wakeup
    if let Some(pg) = &co.probe_progress {
        vs.push(Violation::new(
            "C04.no-lost-wakeup",
            "",
            format!("at quiescence (no runnable task, no pending event, no timer) an extra poll of the connection made progress, i.e. work was possible and nothing was going to trigger it: {}", pg),
        ));
    }
    // --- terminates
    if out.budget_exceeded {
        vs.push(Violation::new("C04.terminates", "step-budget", format!("run did not reach quiescence within {} steps: the connection keeps being woken without finishing (virtual time {} ms, {} polls)", sc.max_steps, out.end_ms, co.polls)));
        return vs;
    }
    let all_answered = co.seen.iter().all(|s| s.answered.is_some());
    let bodies_done = co.seen.iter().enumerate().all(|(k, _)| {
        let a = &cs.prog(k).answer;
        let rec = co.bodies.get(k).cloned().unwrap_or_default();
        !rec.created || rec.ended || rec.errored || rec.dropped.is_some() || matches!(a.body, BodySpec::Bytes(_))
    });
    if out.quiescent && co.eof_sent_at.is_some() && all_answered && bodies_done && !co.task_done {
        vs.push(Violation::new(
            "C04.terminates",
            "open-after-peer-eof",
            format!("peer finished sending (EOF delivered at {:?}), every handler and body completed, all stalls released, yet the connection future never completed (out {} bytes, read {}/{}, shutdown called: {:?})", co.eof_sent_at, co.out.len(), co.read_total, co.stream_len, co.shutdown_called),
        ));
    }
    if !out.extra_tasks_unfinished.is_empty() && out.quiescent && !co.task_done {
        vs.push(Violation::new(
            "C04.no-lost-wakeup",
            "extra-task-stuck",
            format!("simulator tasks {:?} (request-body reader / response-body feeder running outside the connection task) never finished although the connection is still open: their only wake-up source is the payload channel / body poll", out.extra_tasks_unfinished),
        ));
    }

    // --- bytes-once-in-order (metamorphic: the same scenario under the trivial schedule)
    let reference = reference_scenario(sc);
    let ro = run_h1(&reference, Tape::from_fixed(vec![], 0, true), &RunOpts { narrative: false });
    let rco = &ro.conns[0];
    let a = canon(&parse_out_plan(sc, 0, co));
    let pa = parse_out_plan(sc, 0, co);
    let b = canon(&parse_out_plan(&reference, 0, rco));
    if let Tail::Malformed(at, why) = &pa.tail {
        vs.push(Violation::new("C04.bytes-once-in-order", "unparsable-output", format!("output is not a sequence of responses at offset {}: {}", at, why)));
        return vs;
    }
    let cut_ok = legit_cut(sc, co);
    for (i, x) in a.iter().enumerate() {
        match b.get(i) {
            // (when the reference run itself was cut by a failing body it may have flushed less)
            None if legit_cut(&reference, rco) => break,
            None => {
                vs.push(Violation::new("C04.bytes-once-in-order", "extra-output", format!("response #{} (status {}) does not exist in the reference run ({} responses)", i, x.status, b.len())));
                break;
            }
            Some(y) => {
                let same_head = x.status == y.status && x.minor == y.minor && x.headers == y.headers;
                let body_ok = if x.complete && y.complete { x.body == y.body } else { y.body.starts_with(&x.body) || x.body.starts_with(&y.body) };
                if !same_head || !body_ok {
                    let what = if !same_head { "head" } else { "body" };
                    let pos = x.body.iter().zip(y.body.iter()).position(|(p, q)| p != q);
                    vs.push(Violation::new(
                        "C04.bytes-once-in-order",
                        format!("differs-from-reference-{}", what),
                        format!("response #{}: {} differs from the reference run (status {} vs {}, headers {:?} vs {:?}, body {} vs {} bytes, first body difference at {:?})", i, what, x.status, y.status, x.headers, y.headers, x.body.len(), y.body.len(), pos),
                    ));
                    break;
                }
                if !x.complete && y.complete && !cut_ok && out.quiescent {
                    vs.push(Violation::new(
                        "C04.bytes-once-in-order",
                        "output-stalled",
                        format!("response #{} is incomplete ({} of {} body bytes) at quiescence although the reference run completes it and nothing cut the connection", i, x.body.len(), y.body.len()),
                    ));
                }
            }
        }
    }
    if a.len() < b.len() && !cut_ok && (out.quiescent || co.task_done) {
        // a missing response is only legitimate when the connection was cut
        // Requests still undecoded in the read buffer when the peer's EOF is processed are
        // discarded by the server; the property does not forbid that, so it is not judged here.
        let closed_early = co.task_done && co.eof_sent_at.is_some() && co.seen.len() < rco.seen.len();
        if !closed_early {
            let lost = !co.lost_staged.is_empty();
            vs.push(Violation::new(
                "C04.bytes-once-in-order",
                if lost { "fewer-responses-than-reference:dropped-with-unflushed-transport-buffer" } else { "fewer-responses-than-reference" },
                format!("{} responses written, the reference run writes {} (dispatched {} vs {}; task done {}, result {:?}; {} bytes left unflushed in the transport)", a.len(), b.len(), co.seen.len(), rco.seen.len(), co.task_done, co.result.as_ref().map(|r| &r.0), co.lost_staged.len()),
            ));
        }
    }
    vs
}
