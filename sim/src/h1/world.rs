//! H1 rig: runs real `HttpService` → `h1::Dispatcher` connections over `SimSocket`s under the M1
//! executor, with scripted handlers/bodies, and records the history the oracles work on.

use std::{
    cell::RefCell,
    collections::VecDeque,
    future::Future,
    io,
    pin::Pin,
    rc::Rc,
    task::{Context, Poll, Waker},
    time::Duration,
};

use actix_http::{
    body::{BodySize, BodyStream, BoxBody, MessageBody, SizedStream},
    HttpService, KeepAlive, Protocol, Request, Response, StatusCode,
};
use actix_service::{fn_service, Service, ServiceFactory};
use bytes::Bytes;
use futures_core::Stream;

use super::scenario::*;
use crate::{
    exec::{gate::Gates, Exec, Idle, TaskId},
    resp,
    rng::Tape,
    sock::{bump, new_socket, Clock, ServerEnd, SimSocket, Stats},
};

// ------------------------------------------------------------------------------------------
// recorded history

#[derive(Clone, Debug, PartialEq, Eq)]
pub enum BodyEnd {
    NotRead,
    /// handler stopped reading (or was still reading) without reaching an end
    Partial,
    Eof,
    Err(String),
    DroppedEarly,
}

#[derive(Clone, Debug)]
pub struct Seen {
    pub idx: usize,
    pub method: String,
    pub target: String,
    pub minor: u8,
    pub headers: Vec<(String, Vec<u8>)>,
    pub body: Vec<u8>,
    pub chunks: Vec<usize>,
    pub body_end: BodyEnd,
    pub call_ms: u64,
    pub call_step: u64,
    pub out_len_at_call: usize,
    pub read_total_at_call: usize,
    /// step at which the handler future resolved
    pub answered: Option<(u64, u64)>,
    pub out_len_at_answer: usize,
    pub delivered_at_answer: usize,
    pub seen_at_answer: usize,
    pub peer_addr: Option<String>,
    pub conn_tag: Option<usize>,
    pub payload_dropped_step: Option<u64>,
    /// bytes read when bodies are only counted
    pub body_len_only: usize,
}

#[derive(Clone, Debug, Default)]
pub struct BodyRec {
    pub created: bool,
    pub pulled: Vec<usize>,
    pub ended: bool,
    pub errored: bool,
    pub dropped: Option<(u64, u64)>,
    pub polls: u64,
}

#[derive(Default)]
pub struct ConnRec {
    pub seen: Vec<Seen>,
    pub bodies: Vec<BodyRec>,
    pub expect_calls: u32,
    pub result: Option<(Result<(), String>, u64, u64)>,
    pub aborted: bool,
    /// request-body bytes handed to handlers / reader tasks so far
    pub handed: usize,
    /// head bytes of the requests dispatched so far
    pub heads: usize,
    /// response-body bytes pulled from bodies so far
    pub pulled_total: usize,
    /// do not keep request-body bytes (large-volume scenarios): only count them
    pub count_only: bool,
}

pub struct Shared {
    pub clock: Clock,
    pub gates: Gates,
    pub conns: RefCell<Vec<Rc<RefCell<ConnRec>>>>,
    pub socks: RefCell<Vec<SimSocket>>,
    pub scripts: Vec<ConnScript>,
    pub spawn_q: RefCell<Vec<(String, Pin<Box<dyn Future<Output = ()>>>)>>,
    pub stats: RefCell<Stats>,
    pub expect: ExpectPlan,
    pub layouts: Vec<Vec<(usize, usize, usize)>>,
}

pub struct ConnTag(pub usize);

// ------------------------------------------------------------------------------------------
// scripted bodies

struct ChunkSource {
    sh: Rc<Shared>,
    conn: usize,
    idx: usize,
    chunks: Vec<usize>,
    gates: Vec<Option<usize>>,
    yields: u32,
    fail_after: Option<usize>,
    next: usize,
    off: usize,
    yielded_here: u32,
    done: bool,
    _held: Option<actix_http::Payload>,
}

impl ChunkSource {
    fn new(sh: Rc<Shared>, conn: usize, idx: usize, a: &Answer, held: Option<actix_http::Payload>) -> Self {
        {
            let c = sh.conns.borrow()[conn].clone();
            let mut c = c.borrow_mut();
            while c.bodies.len() <= idx {
                c.bodies.push(BodyRec::default());
            }
            c.bodies[idx].created = true;
        }
        ChunkSource {
            sh,
            conn,
            idx,
            chunks: a.chunks(),
            gates: a.chunk_gates.clone(),
            yields: a.chunk_yields,
            fail_after: a.fail_after,
            next: 0,
            off: 0,
            yielded_here: 0,
            done: false,
            _held: held,
        }
    }

    fn rec<R>(&self, f: impl FnOnce(&mut BodyRec) -> R) -> R {
        let c = self.sh.conns.borrow()[self.conn].clone();
        let mut c = c.borrow_mut();
        f(&mut c.bodies[self.idx])
    }

    fn poll(&mut self, cx: &mut Context<'_>) -> Poll<Option<Result<Bytes, io::Error>>> {
        self.rec(|r| r.polls += 1);
        if self.done {
            // polled after completion: legal for the caller to avoid, record it
            bump(&mut self.sh.stats.borrow_mut(), "body_polled_after_end");
            return Poll::Ready(None);
        }
        if let Some(k) = self.fail_after {
            if self.next >= k {
                self.done = true;
                self.rec(|r| r.errored = true);
                bump(&mut self.sh.stats.borrow_mut(), "body_error");
                return Poll::Ready(Some(Err(io::Error::new(io::ErrorKind::Other, "scripted body failure"))));
            }
        }
        if self.next >= self.chunks.len() {
            self.done = true;
            self.rec(|r| r.ended = true);
            return Poll::Ready(None);
        }
        if let Some(Some(g)) = self.gates.get(self.next) {
            if self.sh.gates.poll_gate(*g, cx).is_pending() {
                bump(&mut self.sh.stats.borrow_mut(), "body_chunk_stall");
                return Poll::Pending;
            }
        }
        if self.yielded_here < self.yields {
            self.yielded_here += 1;
            cx.waker().wake_by_ref();
            bump(&mut self.sh.stats.borrow_mut(), "body_yield");
            return Poll::Pending;
        }
        self.yielded_here = 0;
        let n = self.chunks[self.next];
        let data = resp_bytes(self.idx, self.off, n);
        self.off += n;
        self.next += 1;
        self.rec(|r| r.pulled.push(n));
        {
            let c = self.sh.conns.borrow()[self.conn].clone();
            c.borrow_mut().pulled_total += n;
        }
        if n == 0 {
            bump(&mut self.sh.stats.borrow_mut(), "body_empty_chunk");
        }
        Poll::Ready(Some(Ok(Bytes::from(data))))
    }
}

impl Drop for ChunkSource {
    fn drop(&mut self) {
        let t = (self.sh.clock.ms(), self.sh.clock.step());
        if let Ok(cs) = self.sh.conns.try_borrow() {
            if let Some(c) = cs.get(self.conn) {
                if let Ok(mut c) = c.try_borrow_mut() {
                    if let Some(b) = c.bodies.get_mut(self.idx) {
                        b.dropped = Some(t);
                    }
                }
            }
        }
    }
}

struct ScriptStream(ChunkSource);

impl Stream for ScriptStream {
    type Item = Result<Bytes, io::Error>;
    fn poll_next(mut self: Pin<&mut Self>, cx: &mut Context<'_>) -> Poll<Option<Self::Item>> {
        self.0.poll(cx)
    }
}

struct CustomBody {
    src: ChunkSource,
    claim: SizeClaim,
}

impl MessageBody for CustomBody {
    type Error = io::Error;
    fn size(&self) -> BodySize {
        match self.claim {
            SizeClaim::None => BodySize::None,
            SizeClaim::Sized(n) => BodySize::Sized(n),
            SizeClaim::Stream => BodySize::Stream,
        }
    }
    fn poll_next(mut self: Pin<&mut Self>, cx: &mut Context<'_>) -> Poll<Option<Result<Bytes, io::Error>>> {
        self.src.poll(cx)
    }
}

// channel body (fed from another simulator task)
#[derive(Default)]
struct Chan {
    q: VecDeque<Bytes>,
    closed: bool,
    waker: Option<Waker>,
}

struct ChanStream {
    ch: Rc<RefCell<Chan>>,
    sh: Rc<Shared>,
    conn: usize,
    idx: usize,
}

impl Stream for ChanStream {
    type Item = Result<Bytes, io::Error>;
    fn poll_next(self: Pin<&mut Self>, cx: &mut Context<'_>) -> Poll<Option<Self::Item>> {
        let mut ch = self.ch.borrow_mut();
        let c = self.sh.conns.borrow()[self.conn].clone();
        let mut c = c.borrow_mut();
        let c = &mut *c;
        let rec = &mut c.bodies[self.idx];
        rec.polls += 1;
        if let Some(b) = ch.q.pop_front() {
            rec.pulled.push(b.len());
            c.pulled_total += b.len();
            return Poll::Ready(Some(Ok(b)));
        }
        if ch.closed {
            rec.ended = true;
            return Poll::Ready(None);
        }
        ch.waker = Some(cx.waker().clone());
        Poll::Pending
    }
}

impl Drop for ChanStream {
    fn drop(&mut self) {
        let t = (self.sh.clock.ms(), self.sh.clock.step());
        if let Ok(cs) = self.sh.conns.try_borrow() {
            if let Ok(mut c) = cs[self.conn].try_borrow_mut() {
                if let Some(b) = c.bodies.get_mut(self.idx) {
                    b.dropped = Some(t);
                }
            }
        }
    }
}

struct YieldN(u32);
impl Future for YieldN {
    type Output = ();
    fn poll(mut self: Pin<&mut Self>, cx: &mut Context<'_>) -> Poll<()> {
        if self.0 == 0 {
            Poll::Ready(())
        } else {
            self.0 -= 1;
            cx.waker().wake_by_ref();
            Poll::Pending
        }
    }
}

async fn next_chunk(p: &mut actix_http::Payload) -> Option<Result<Bytes, actix_http::error::PayloadError>> {
    std::future::poll_fn(|cx| Pin::new(&mut *p).poll_next(cx)).await
}

fn with_seen<R>(sh: &Shared, conn: usize, idx: usize, f: impl FnOnce(&mut Seen) -> R) -> R {
    let c = sh.conns.borrow()[conn].clone();
    let mut c = c.borrow_mut();
    f(&mut c.seen[idx])
}

async fn read_payload(sh: Rc<Shared>, conn: usize, idx: usize, p: &mut actix_http::Payload, max_chunks: Option<u32>, slow: bool) {
    let mut n = 0u32;
    loop {
        if let Some(m) = max_chunks {
            if n >= m {
                with_seen(&sh, conn, idx, |s| {
                    if s.body_end == BodyEnd::NotRead {
                        s.body_end = BodyEnd::Partial
                    }
                });
                return;
            }
        }
        with_seen(&sh, conn, idx, |s| {
            if s.body_end == BodyEnd::NotRead {
                s.body_end = BodyEnd::Partial
            }
        });
        match next_chunk(p).await {
            Some(Ok(b)) => {
                {
                    let c = sh.conns.borrow()[conn].clone();
                    let mut c = c.borrow_mut();
                    // counted in wire bytes (chunk framing included) so that it can be compared
                    // with what was taken from the socket
                    let (wire, body) = sh.layouts[conn].get(idx).map(|l| (l.2 - l.1, sh.scripts[conn].reqs.get(idx).map(|r| r.body_len).unwrap_or(0))).unwrap_or((0, 0));
                    c.handed += if body > 0 && wire >= body { (b.len() as u128 * wire as u128 / body as u128) as usize } else { b.len() };
                    let count_only = c.count_only;
                    let s = &mut c.seen[idx];
                    if count_only {
                        s.body_len_only += b.len();
                    } else {
                        s.body.extend_from_slice(&b);
                        s.chunks.push(b.len());
                    }
                }
                n += 1;
                if slow {
                    YieldN(1).await;
                }
            }
            Some(Err(e)) => {
                with_seen(&sh, conn, idx, |s| s.body_end = BodyEnd::Err(format!("{:?}", e)));
                return;
            }
            None => {
                with_seen(&sh, conn, idx, |s| s.body_end = BodyEnd::Eof);
                return;
            }
        }
    }
}

async fn run_prog(sh: Rc<Shared>, conn: usize, idx: usize, mut req: Request, prog: Prog) -> Result<Response<BoxBody>, Response<BoxBody>> {
    let mut payload: Option<actix_http::Payload> = Some(req.take_payload());
    let mut held: Option<actix_http::Payload> = None;
    for step in &prog.steps {
        match step {
            Step::ReadAll => {
                if let Some(p) = payload.as_mut() {
                    read_payload(sh.clone(), conn, idx, p, None, false).await;
                }
            }
            Step::ReadSlow => {
                if let Some(p) = payload.as_mut() {
                    read_payload(sh.clone(), conn, idx, p, None, true).await;
                }
            }
            Step::ReadChunks(k) => {
                if let Some(p) = payload.as_mut() {
                    read_payload(sh.clone(), conn, idx, p, Some(*k), false).await;
                }
            }
            Step::DropPayload => {
                if let Some(p) = payload.take() {
                    drop(p);
                    let st = sh.clock.step();
                    with_seen(&sh, conn, idx, |s| {
                        s.payload_dropped_step = Some(st);
                        if s.body_end == BodyEnd::NotRead || s.body_end == BodyEnd::Partial {
                            s.body_end = BodyEnd::DroppedEarly;
                        }
                    });
                }
            }
            Step::HoldPayload => {
                if let Some(p) = payload.take() {
                    held = Some(p);
                }
            }
            Step::MovePayloadToTask => {
                // what applications do with `actix_web::rt::spawn`: the body is consumed by another
                // task while the handler awaits its completion; the payload channel's own wakers
                // are then the only thing connecting the reader and the connection task
                if let Some(mut p) = payload.take() {
                    let sh2 = sh.clone();
                    let done: Rc<RefCell<(bool, Option<Waker>)>> = Rc::new(RefCell::new((false, None)));
                    let done2 = done.clone();
                    sh.spawn_q.borrow_mut().push((
                        format!("reader-{}-{}", conn, idx),
                        Box::pin(async move {
                            read_payload(sh2, conn, idx, &mut p, None, false).await;
                            drop(p);
                            let w = {
                                let mut d = done2.borrow_mut();
                                d.0 = true;
                                d.1.take()
                            };
                            if let Some(w) = w {
                                w.wake();
                            }
                        }),
                    ));
                    bump(&mut sh.stats.borrow_mut(), "payload_moved_to_task");
                    std::future::poll_fn(|cx| {
                        let mut d = done.borrow_mut();
                        if d.0 {
                            Poll::Ready(())
                        } else {
                            d.1 = Some(cx.waker().clone());
                            Poll::Pending
                        }
                    })
                    .await;
                }
            }
            Step::Gate(g) => {
                if !sh.gates.is_open(*g) {
                    bump(&mut sh.stats.borrow_mut(), "handler_stall");
                }
                sh.gates.wait(*g).await;
            }
            Step::Yield(n) => YieldN(*n).await,
        }
    }
    let a = &prog.answer;
    let status = StatusCode::from_u16(a.status).unwrap_or(StatusCode::OK);
    let mut b = Response::build(status);
    for (n, v) in &a.headers {
        b.append_header((n.as_str(), v.as_str()));
    }
    if a.force_close {
        b.force_close();
    }
    let mk = |held: Option<actix_http::Payload>| ChunkSource::new(sh.clone(), conn, idx, a, held);
    let res: Response<BoxBody> = match &a.body {
        BodySpec::Empty => b.message_body(()).unwrap().map_into_boxed_body(),
        BodySpec::NoneBody => b.message_body(actix_http::body::None::new()).unwrap().map_into_boxed_body(),
        BodySpec::Bytes(n) => {
            {
                let c = sh.conns.borrow()[conn].clone();
                let mut c = c.borrow_mut();
                while c.bodies.len() <= idx {
                    c.bodies.push(BodyRec::default());
                }
                c.bodies[idx].created = true;
                c.bodies[idx].pulled.push(*n);
                c.bodies[idx].ended = true;
                c.pulled_total += *n;
            }
            b.message_body(Bytes::from(resp_bytes(idx, 0, *n))).unwrap().map_into_boxed_body()
        }
        BodySpec::Sized { len, .. } => b
            .message_body(SizedStream::new(*len, ScriptStream(mk(held.take()))))
            .unwrap()
            .map_into_boxed_body(),
        BodySpec::Stream { .. } => b
            .message_body(BodyStream::new(ScriptStream(mk(held.take()))))
            .unwrap()
            .map_into_boxed_body(),
        BodySpec::Custom { claim, .. } => b
            .message_body(CustomBody {
                src: mk(held.take()),
                claim: claim.clone(),
            })
            .unwrap()
            .map_into_boxed_body(),
        BodySpec::FromTask { chunks } => {
            {
                let c = sh.conns.borrow()[conn].clone();
                let mut c = c.borrow_mut();
                while c.bodies.len() <= idx {
                    c.bodies.push(BodyRec::default());
                }
                c.bodies[idx].created = true;
            }
            let ch = Rc::new(RefCell::new(Chan::default()));
            let ch2 = ch.clone();
            let chunks = chunks.clone();
            let gates = a.chunk_gates.clone();
            let sh2 = sh.clone();
            sh.spawn_q.borrow_mut().push((
                format!("feeder-{}-{}", conn, idx),
                Box::pin(async move {
                    let mut off = 0;
                    for (j, n) in chunks.iter().enumerate() {
                        if let Some(Some(g)) = gates.get(j) {
                            sh2.gates.wait(*g).await;
                        }
                        YieldN(1).await;
                        let w = {
                            let mut c = ch2.borrow_mut();
                            c.q.push_back(Bytes::from(resp_bytes(idx, off, *n)));
                            c.waker.take()
                        };
                        off += n;
                        if let Some(w) = w {
                            w.wake();
                        }
                    }
                    YieldN(1).await;
                    let w = {
                        let mut c = ch2.borrow_mut();
                        c.closed = true;
                        c.waker.take()
                    };
                    if let Some(w) = w {
                        w.wake();
                    }
                }),
            ));
            bump(&mut sh.stats.borrow_mut(), "body_from_task");
            b.message_body(BodyStream::new(ChanStream {
                ch,
                sh: sh.clone(),
                conn,
                idx,
            }))
            .unwrap()
            .map_into_boxed_body()
        }
    };
    {
        let t = (sh.clock.ms(), sh.clock.step());
        let (ol, dl) = {
            let s = sh.socks.borrow()[conn].st.clone();
            let s = s.borrow();
            (s.out.len(), s.delivered_total)
        };
        let c = sh.conns.borrow()[conn].clone();
        let mut c = c.borrow_mut();
        let n_seen = c.seen.len();
        let s = &mut c.seen[idx];
        s.answered = Some(t);
        s.out_len_at_answer = ol;
        s.delivered_at_answer = dl;
        s.seen_at_answer = n_seen;
    }
    drop(payload);
    drop(held);
    drop(req);
    if a.as_error {
        Err(res)
    } else {
        Ok(res)
    }
}

// ------------------------------------------------------------------------------------------
// the simulation loop

#[derive(Clone, Copy, Debug, PartialEq, Eq)]
pub enum Act {
    Run(usize),
    Spurious(usize),
    Deliver(usize),
    End(usize),
    ReadWake(usize),
    FlushReady(usize),
    ShutdownReady(usize),
    Grant(usize),
    PeerReset(usize),
    OpenGate(usize),
    Signal,
    StartConn(usize),
    Abort(usize),
}

#[derive(Clone, Debug)]
pub struct ConnOut {
    pub out: Vec<u8>,
    pub marks: Vec<crate::sock::Mark>,
    pub seen: Vec<Seen>,
    pub bodies: Vec<BodyRec>,
    pub expect_calls: u32,
    pub result: Option<(Result<(), String>, u64, u64)>,
    pub read_total: usize,
    pub delivered_total: usize,
    pub stream_len: usize,
    pub saw_eof_at: Option<(u64, u64)>,
    pub eof_sent_at: Option<(u64, u64)>,
    pub reset_sent_at: Option<(u64, u64)>,
    pub shutdown_called: Option<(u64, u64)>,
    pub shutdown_done: Option<(u64, u64)>,
    pub dropped: Option<(u64, u64)>,
    pub deliveries: Vec<(u64, u64, usize)>,
    pub reads: Vec<(u64, u64, usize)>,
    pub task_done: bool,
    pub probe_progress: Option<String>,
    pub polls: u64,
    pub wakes: u64,
    pub max_self_wake_streak: u64,
    pub max_read_ahead: i64,
    pub max_write_ahead: i64,
    pub write_after_shutdown: bool,
    pub started_ms: u64,
    pub flush_calls: u64,
    pub flush_ready_steps: Vec<u64>,
    /// steps after which every task was parked with no flush outstanding on this connection
    pub parked_steps: Vec<u64>,
    /// bytes accepted by a buffering transport but never flushed to the wire
    pub lost_staged: Vec<u8>,
}

#[derive(Clone, Debug)]
pub struct H1Out {
    pub conns: Vec<ConnOut>,
    pub trace_hash: u64,
    pub steps: u64,
    pub end_ms: u64,
    pub quiescent: bool,
    pub budget_exceeded: bool,
    pub stats: Stats,
    pub tape: Vec<u32>,
    pub narrative: Vec<String>,
    pub signal_fired: Option<(u64, u64)>,
    pub gate_opened: Vec<Option<(u64, u64)>>,
    pub extra_tasks_unfinished: Vec<String>,
    pub heap_peak: usize,
    pub heap_base: usize,
}

struct ConnState {
    stream: Vec<u8>,
    next_seg: usize,
    sent: usize,
    last_event_ms: u64,
    end_done: bool,
    grants_next: usize,
    last_grant_ms: u64,
    started: bool,
    task: Option<TaskId>,
    head_flags: Vec<bool>,
    peer_reset_done: bool,
}

fn fnv(h: &mut u64, x: u64) {
    *h ^= x;
    *h = h.wrapping_mul(0x100000001b3);
}

pub struct RunOpts {
    pub narrative: bool,
}

pub fn run_h1(sc: &H1Scenario, tape: Tape, opts: &RunOpts) -> H1Out {
    let sc = sc.clone();
    let narr = opts.narrative;
    crate::exec::run_sim(async move { run_h1_inner(sc, tape, narr).await })
}

async fn run_h1_inner(sc: H1Scenario, tape: Tape, narr: bool) -> H1Out {
    let heap_base = crate::alloc::live();
    crate::alloc::reset_peak();
    let tape = Rc::new(RefCell::new(tape));
    let clock = Clock::new();
    let n_gates = sc.gates.len();
    let gates = Gates::new(n_gates + 1);
    let signal_gate = n_gates;
    let sh = Rc::new(Shared {
        clock: clock.clone(),
        gates: gates.clone(),
        conns: RefCell::new(Vec::new()),
        socks: RefCell::new(Vec::new()),
        scripts: sc.conns.clone(),
        spawn_q: RefCell::new(Vec::new()),
        stats: RefCell::new(Stats::new()),
        expect: sc.cfg.expect,
        layouts: sc.conns.iter().map(|c| c.layout()).collect(),
    });

    // sockets
    let mut server_ends: Vec<Option<ServerEnd>> = Vec::new();
    let mut cstate: Vec<ConnState> = Vec::new();
    for (i, cs) in sc.conns.iter().enumerate() {
        let (se, ss) = new_socket(cs.sock.clone(), tape.clone(), clock.clone());
        se.st.borrow_mut().id = i;
        server_ends.push(Some(se));
        sh.socks.borrow_mut().push(ss);
        sh.conns.borrow_mut().push(Rc::new(RefCell::new(ConnRec {
            count_only: sc.note.starts_with("c05"),
            ..Default::default()
        })));
        cstate.push(ConnState {
            stream: cs.stream(),
            next_seg: 0,
            sent: 0,
            last_event_ms: cs.start_ms as u64,
            end_done: matches!(cs.end, End::KeepOpen),
            grants_next: 0,
            last_grant_ms: 0,
            started: false,
            task: None,
            head_flags: cs.reqs.iter().map(|r| r.method == "HEAD").collect(),
            peer_reset_done: false,
        });
    }

    // service
    let sh_svc = sh.clone();
    let main_svc = fn_service(move |req: Request| {
        let sh = sh_svc.clone();
        let conn = req.conn_data::<ConnTag>().map(|t| t.0).unwrap_or(0);
        let conn_tag = req.conn_data::<ConnTag>().map(|t| t.0);
        let (idx, prog) = {
            let c = sh.conns.borrow()[conn].clone();
            let mut c = c.borrow_mut();
            let idx = c.seen.len();
            let (ol, rt) = {
                let s = sh.socks.borrow()[conn].st.clone();
                let s = s.borrow();
                (s.out.len(), s.read_total)
            };
            let head = req.head();
            c.seen.push(Seen {
                idx,
                method: head.method.as_str().to_string(),
                target: head.uri.to_string(),
                minor: if head.version == http::Version::HTTP_10 { 0 } else { 1 },
                headers: head
                    .headers
                    .iter()
                    .map(|(n, v)| (n.as_str().to_string(), v.as_bytes().to_vec()))
                    .collect(),
                body: Vec::new(),
                chunks: Vec::new(),
                body_end: BodyEnd::NotRead,
                call_ms: sh.clock.ms(),
                call_step: sh.clock.step(),
                out_len_at_call: ol,
                read_total_at_call: rt,
                answered: None,
                out_len_at_answer: 0,
                delivered_at_answer: 0,
                seen_at_answer: 0,
                peer_addr: head.peer_addr.map(|a| a.to_string()),
                conn_tag,
                payload_dropped_step: None,
                body_len_only: 0,
            });
            // size of this head on the wire, reconstructed from the parsed request
            c.heads += head.method.as_str().len() + 1 + head.uri.to_string().len() + 1 + 8 + 2 + head.headers.iter().map(|(n, v)| n.as_str().len() + 2 + v.as_bytes().len() + 2).sum::<usize>() + 2;
            while c.bodies.len() <= idx {
                c.bodies.push(BodyRec::default());
            }
            (idx, sh.scripts[conn].prog(idx))
        };
        run_prog(sh, conn, idx, req, prog)
    });
    let sh_exp = sh.clone();
    let expect_svc = fn_service(move |req: Request| {
        let sh = sh_exp.clone();
        async move {
            let conn = req.conn_data::<ConnTag>().map(|t| t.0).unwrap_or(0);
            sh.conns.borrow()[conn].borrow_mut().expect_calls += 1;
            match sh.expect {
                ExpectPlan::Accept => Ok::<Request, Response<BoxBody>>(req),
                ExpectPlan::Reject(code) => Err(Response::build(StatusCode::from_u16(code).unwrap_or(StatusCode::EXPECTATION_FAILED))
                    .finish()
                    .map_into_boxed_body()),
                ExpectPlan::GateThenAccept(g) => {
                    sh.gates.wait(g).await;
                    Ok(req)
                }
            }
        }
    });

    let ka = match sc.cfg.keep_alive {
        Ka::Disabled => KeepAlive::Disabled,
        Ka::Os => KeepAlive::Os,
        Ka::TimeoutMs(ms) => KeepAlive::Timeout(Duration::from_millis(ms)),
    };
    let mut builder = HttpService::<ServerEnd, _, BoxBody>::build()
        .keep_alive(ka)
        .client_request_timeout(Duration::from_millis(sc.cfg.req_timeout_ms))
        .client_disconnect_timeout(Duration::from_millis(sc.cfg.disc_timeout_ms))
        .h1_allow_half_closed(sc.cfg.half_closed)
        .h1_write_buffer_size(sc.cfg.write_buf)
        .on_connect_ext(|io: &ServerEnd, ext| {
            let id = io.st.borrow().id;
            ext.insert(ConnTag(id));
        });
    if sc.signal_at_ms.is_some() {
        let g = gates.clone();
        builder = builder.graceful_shutdown_signal(move || g.wait(signal_gate));
    }
    let factory = builder.expect(expect_svc).finish(main_svc);
    let handler = factory.new_service(()).await.expect("service init");
    // let the DateService task run its first tick so that config.now() is virtual time
    tokio::task::yield_now().await;
    tokio::task::yield_now().await;

    let mut ex = Exec::new();
    let mut trace_hash: u64 = 0xcbf29ce484222325;
    let mut narrative: Vec<String> = Vec::new();
    let mut steps: u64 = 0;
    let mut quiescent = false;
    let mut budget_exceeded = false;
    let mut gate_opened: Vec<Option<(u64, u64)>> = vec![None; n_gates];
    let mut signal_fired: Option<(u64, u64)> = None;
    let mut extra_tasks: Vec<(TaskId, String)> = Vec::new();
    let mut eof_sent: Vec<Option<(u64, u64)>> = vec![None; sc.conns.len()];
    let mut reset_sent: Vec<Option<(u64, u64)>> = vec![None; sc.conns.len()];
    let mut deliveries: Vec<Vec<(u64, u64, usize)>> = vec![Vec::new(); sc.conns.len()];
    let mut max_ra: Vec<i64> = vec![0; sc.conns.len()];
    let mut max_wa: Vec<i64> = vec![0; sc.conns.len()];
    let mut started_ms: Vec<u64> = vec![0; sc.conns.len()];
    let mut parked: Vec<Vec<u64>> = vec![Vec::new(); sc.conns.len()];
    let max_chunk: Vec<usize> = sc
        .conns
        .iter()
        .map(|c| c.progs.iter().flat_map(|p| p.answer.chunks()).max().unwrap_or(0))
        .collect();
    let _ = max_chunk;

    let mut acts: Vec<(Act, u32)> = Vec::new();
    loop {
        // pick up tasks requested by handlers
        {
            let q: Vec<_> = sh.spawn_q.borrow_mut().drain(..).collect();
            for (name, fut) in q {
                let id = ex.spawn(&name, fut);
                extra_tasks.push((id, name));
            }
        }
        if steps >= sc.max_steps {
            budget_exceeded = true;
            break;
        }
        if cstate.iter().all(|s| s.started && s.task.map(|t| ex.tasks[t].done).unwrap_or(false)) && ex.unfinished().is_empty() {
            break;
        }
        let now = ex.now_ms();
        acts.clear();
        let mut next_due: Option<u64> = None;
        let mut due = |t: u64, nd: &mut Option<u64>| -> bool {
            if t <= now {
                true
            } else {
                *nd = Some(nd.map_or(t, |x: u64| x.min(t)));
                false
            }
        };
        for t in ex.runnable() {
            acts.push((Act::Run(t), sc.sched.w_run));
        }
        if acts.is_empty() {
            // every task is parked: whatever the connections could do with what they have, they did
            for i in 0..sc.conns.len() {
                let sock = sh.socks.borrow()[i].st.clone();
                let sock = sock.borrow();
                if !sock.flush_blocked && !sock.pending_read_wake && parked[i].last() != Some(&clock.step()) {
                    parked[i].push(clock.step());
                }
            }
        }
        for (i, cs) in sc.conns.iter().enumerate() {
            let st = &cstate[i];
            if !st.started {
                if due(cs.start_ms as u64, &mut next_due) {
                    acts.push((Act::StartConn(i), sc.sched.w_other.max(1) * 4));
                }
                continue;
            }
            if st.task.map(|t| ex.tasks[t].done).unwrap_or(false) {
                continue;
            }
            let sock = sh.socks.borrow()[i].st.clone();
            let sock = sock.borrow();
            let server_gone = sock.server_closed() || sock.reset;
            // input segments
            if !sock.reset && st.next_seg < cs.segs.len() {
                let seg = &cs.segs[st.next_seg];
                let t_due = st.last_event_ms + seg.delay_ms as u64;
                let cond = match seg.wait {
                    Wait::Time => Some(true),
                    Wait::Continue(n) => {
                        let (_, c) = resp::count_responses(&sock.out, &st.head_flags);
                        if c >= n {
                            Some(true)
                        } else {
                            None
                        }
                    }
                    Wait::InboxBelow(n) => Some(sock.inbox.len() < n as usize),
                    Wait::Responses(n) => {
                        let (f, _) = resp::count_responses(&sock.out, &st.head_flags);
                        if f >= n {
                            Some(true)
                        } else {
                            Some(false)
                        }
                    }
                };
                match cond {
                    Some(true) => {
                        if due(t_due, &mut next_due) && !server_gone {
                            acts.push((Act::Deliver(i), sc.sched.w_deliver));
                        }
                    }
                    Some(false) => {}
                    None => {
                        // waiting for 100-continue, but not for ever
                        if due(t_due + 1000, &mut next_due) && !server_gone {
                            acts.push((Act::Deliver(i), sc.sched.w_deliver));
                        }
                    }
                }
            } else if !st.end_done && !sock.reset {
                match cs.end {
                    End::KeepOpen => {}
                    End::HalfClose { delay_ms } | End::Reset { delay_ms } => {
                        if due(st.last_event_ms + delay_ms as u64, &mut next_due) {
                            acts.push((Act::End(i), sc.sched.w_deliver));
                        }
                    }
                    End::HalfCloseAfterResponses { n, delay_ms } => {
                        let (f, _) = resp::count_responses(&sock.out, &st.head_flags);
                        if f >= n && due(st.last_event_ms + delay_ms as u64, &mut next_due) {
                            acts.push((Act::End(i), sc.sched.w_deliver));
                        }
                    }
                }
            }
            if sock.pending_read_wake {
                acts.push((Act::ReadWake(i), sc.sched.w_other));
            }
            if sock.flush_blocked {
                acts.push((Act::FlushReady(i), sc.sched.w_other));
            }
            if let (crate::sock::ShutPlan::PendingMs(ms), Some((t0, _)), false) = (sock.plan.shutdown, sock.shutdown_called, sock.shutdown_ready) {
                if due(t0 + ms as u64, &mut next_due) {
                    acts.push((Act::ShutdownReady(i), sc.sched.w_other));
                }
            }
            if cs.sock.gated_writes && sock.wcap.is_some() {
                if st.grants_next < cs.grants.len() {
                    let (_, d) = cs.grants[st.grants_next];
                    if due(st.last_grant_ms + d as u64, &mut next_due) {
                        acts.push((Act::Grant(i), sc.sched.w_other));
                    }
                } else if !cs.writes_blocked_after_grants {
                    acts.push((Act::Grant(i), sc.sched.w_other));
                }
            }
            if let Some(k) = cs.reset_after_out {
                if !st.peer_reset_done && !sock.reset && sock.out.len() >= k {
                    acts.push((Act::PeerReset(i), sc.sched.w_other.max(1) * 2));
                }
            }
        }
        for (g, ge) in sc.gates.iter().enumerate() {
            if gate_opened[g].is_none() && due(ge.at_ms, &mut next_due) {
                acts.push((Act::OpenGate(g), sc.sched.w_gate));
            }
        }
        if let Some(t) = sc.signal_at_ms {
            if signal_fired.is_none() && due(t, &mut next_due) {
                acts.push((Act::Signal, sc.sched.w_other));
            }
        }
        // A task that keeps waking itself without any observable progress would pin virtual time
        // (time only advances when nothing is runnable). A real clock advances regardless, so after
        // a long streak the simulator lets time jump to the next environment event.
        if !acts.is_empty() && next_due.is_some() && acts.iter().all(|(a, _)| matches!(a, Act::Run(t) if ex.tasks[*t].self_wake_streak >= 200)) {
            bump(&mut sh.stats.borrow_mut(), "busy_spin_time_skip");
            let t = next_due.unwrap();
            tokio::time::sleep_until(ex.start_instant() + Duration::from_millis(t)).await;
            for (a, _) in acts.iter() {
                if let Act::Run(t) = a {
                    ex.tasks[*t].self_wake_streak = 0;
                }
            }
            continue;
        }
        if acts.is_empty() {
            if ex.unfinished().is_empty() && next_due.is_none() {
                break;
            }
            // all connections finished and only gates/signals remain: nothing observable left
            let conns_done = cstate.iter().all(|s| s.started && s.task.map(|t| ex.tasks[t].done).unwrap_or(false));
            if conns_done && ex.unfinished().is_empty() {
                break;
            }
            // `horizon_ms` is a quiet period: with an environment event still to come the loop
            // waits for it; with none left, nothing but the system's own timers can cause
            // activity, and if none does for `horizon_ms` of virtual time the run is quiescent.
            const ABS_CAP_MS: u64 = 3_600_000;
            match next_due {
                Some(t) if t < ABS_CAP_MS => {
                    ex.idle_until(Duration::from_millis(t)).await;
                }
                _ => {
                    let deadline = now + sc.horizon_ms;
                    let r = ex.idle_until(Duration::from_millis(deadline)).await;
                    if r == Idle::Deadline {
                        quiescent = true;
                        break;
                    }
                }
            }
            continue;
        }
        // explicit spurious poll
        if sc.sched.spurious_poll_pm > 0 {
            let unf = ex.unfinished();
            if !unf.is_empty() && tape.borrow_mut().chance(sc.sched.spurious_poll_pm, 1000) {
                let k = tape.borrow_mut().draw(unf.len() as u32) as usize;
                acts.clear();
                acts.push((Act::Spurious(unf[k]), 1));
            }
        }
        let total: u32 = acts.iter().map(|a| a.1.max(1)).sum();
        let mut r = if acts.len() == 1 { 0 } else { tape.borrow_mut().draw(total) };
        let mut chosen = acts[0].0;
        for (a, w) in acts.iter() {
            let w = (*w).max(1);
            if r < w {
                chosen = *a;
                break;
            }
            r -= w;
        }
        steps += 1;
        let step = clock.tick();
        let ms = now;
        let mut info: (u64, u64) = (0, 0);
        match chosen {
            Act::Run(t) | Act::Spurious(t) => {
                if matches!(chosen, Act::Spurious(_)) {
                    bump(&mut sh.stats.borrow_mut(), "spurious_poll");
                }
                let done = ex.poll_task(t);
                info = (t as u64, done as u64);
            }
            Act::StartConn(i) => {
                let se = server_ends[i].take().unwrap();
                let fut = handler.call((se, Protocol::Http1, Some(format!("127.0.0.1:{}", 1000 + i).parse().unwrap())));
                let rec = sh.conns.borrow()[i].clone();
                let ck = clock.clone();
                let id = ex.spawn(&format!("conn-{}", i), async move {
                    let r = fut.await;
                    rec.borrow_mut().result = Some((r.map_err(|e| format!("{:?}", e)), ck.ms(), ck.step()));
                });
                cstate[i].task = Some(id);
                cstate[i].started = true;
                cstate[i].last_event_ms = now;
                cstate[i].last_grant_ms = now;
                started_ms[i] = now;
                info = (i as u64, 0);
            }
            Act::Deliver(i) => {
                let st = &mut cstate[i];
                let seg = &sc.conns[i].segs[st.next_seg];
                let end = seg.end.min(st.stream.len());
                let data = st.stream[st.sent..end.max(st.sent)].to_vec();
                st.sent = end.max(st.sent);
                st.next_seg += 1;
                st.last_event_ms = now;
                deliveries[i].push((ms, step, data.len()));
                sh.socks.borrow()[i].st.borrow_mut().deliver(&data);
                info = (i as u64, data.len() as u64);
            }
            Act::End(i) => {
                let st = &mut cstate[i];
                st.end_done = true;
                st.last_event_ms = now;
                match sc.conns[i].end {
                    End::HalfClose { .. } | End::HalfCloseAfterResponses { .. } => {
                        eof_sent[i] = Some((ms, step));
                        sh.socks.borrow()[i].st.borrow_mut().half_close();
                        bump(&mut sh.stats.borrow_mut(), "peer_half_close");
                    }
                    End::Reset { .. } => {
                        reset_sent[i] = Some((ms, step));
                        sh.socks.borrow()[i].st.borrow_mut().reset_conn();
                        bump(&mut sh.stats.borrow_mut(), "peer_reset");
                    }
                    End::KeepOpen => {}
                }
                info = (i as u64, 0);
            }
            Act::ReadWake(i) => {
                sh.socks.borrow()[i].st.borrow_mut().fire_read_wake();
                info = (i as u64, 0);
            }
            Act::FlushReady(i) => {
                sh.socks.borrow()[i].st.borrow_mut().fire_flush_ready();
                info = (i as u64, 0);
            }
            Act::ShutdownReady(i) => {
                sh.socks.borrow()[i].st.borrow_mut().fire_shutdown_ready();
                info = (i as u64, 0);
            }
            Act::Grant(i) => {
                let st = &mut cstate[i];
                let g = if st.grants_next < sc.conns[i].grants.len() {
                    let (n, _) = sc.conns[i].grants[st.grants_next];
                    st.grants_next += 1;
                    Some(n)
                } else {
                    None
                };
                st.last_grant_ms = now;
                sh.socks.borrow()[i].st.borrow_mut().grant(g);
                info = (i as u64, g.unwrap_or(usize::MAX) as u64);
            }
            Act::PeerReset(i) => {
                cstate[i].peer_reset_done = true;
                reset_sent[i] = Some((ms, step));
                sh.socks.borrow()[i].st.borrow_mut().reset_conn();
                bump(&mut sh.stats.borrow_mut(), "peer_reset_after_out");
                info = (i as u64, 0);
            }
            Act::OpenGate(g) => {
                gate_opened[g] = Some((ms, step));
                gates.open(g);
                info = (g as u64, 0);
            }
            Act::Signal => {
                signal_fired = Some((ms, step));
                gates.open(signal_gate);
                bump(&mut sh.stats.borrow_mut(), "signal_fired");
            }
            Act::Abort(i) => {
                if let Some(t) = cstate[i].task {
                    ex.cancel(t);
                    sh.conns.borrow()[i].borrow_mut().aborted = true;
                }
            }
        }
        // trace + accounting
        fnv(&mut trace_hash, step);
        fnv(&mut trace_hash, ms);
        fnv(&mut trace_hash, act_code(chosen));
        fnv(&mut trace_hash, info.0);
        fnv(&mut trace_hash, info.1);
        for i in 0..sc.conns.len() {
            let sock = sh.socks.borrow()[i].st.clone();
            let sock = sock.borrow();
            let rec = sh.conns.borrow()[i].clone();
            let rec = rec.borrow();
            fnv(&mut trace_hash, sock.out.len() as u64);
            fnv(&mut trace_hash, sock.read_total as u64);
            fnv(&mut trace_hash, rec.seen.len() as u64);
            // C05 accounting
            let ra = sock.read_total as i64 - rec.handed as i64 - rec.heads as i64;
            if ra > max_ra[i] {
                max_ra[i] = ra;
            }
            let wa = rec.pulled_total as i64 - (sock.out.len() + sock.staged.len()) as i64;
            if wa > max_wa[i] {
                max_wa[i] = wa;
            }
        }
        if narr {
            let mut line = format!("#{} t={}ms {:?}", step, ms, chosen);
            match chosen {
                Act::Run(t) | Act::Spurious(t) => {
                    line.push_str(&format!(" [{}]{}", ex.tasks[t].name, if info.1 == 1 { " -> done" } else { "" }))
                }
                Act::Deliver(_) => line.push_str(&format!(" {} bytes", info.1)),
                _ => {}
            }
            for i in 0..sc.conns.len() {
                let sock = sh.socks.borrow()[i].st.clone();
                let sock = sock.borrow();
                let rec = sh.conns.borrow()[i].clone();
                let rec = rec.borrow();
                line.push_str(&format!(" | c{}: read={} out={} calls={}{}{}{}", i, sock.read_total, sock.out.len(), rec.seen.len(), if sock.flush_blocked { " flush-pending" } else { "" }, if sock.shutdown_called.is_some() { " shutdown-called" } else { "" }, if sock.read_waker.is_some() { " read-parked" } else { "" }));
            }
            narrative.push(line);
        }
    }

    // probe polls at quiescence: poll each unfinished task once more without a wake-up
    let mut probe: Vec<Option<String>> = vec![None; sc.conns.len()];
    if quiescent {
        for i in 0..sc.conns.len() {
            if let Some(t) = cstate[i].task {
                if ex.tasks[t].done {
                    continue;
                }
                let before = snapshot(&sh, i);
                let done = ex.poll_task(t);
                let after = snapshot(&sh, i);
                if done || before != after {
                    probe[i] = Some(format!("probe poll made progress: done={} before={:?} after={:?}", done, before, after));
                }
                if narr {
                    narrative.push(format!("probe c{}: done={} {:?} -> {:?}", i, done, before, after));
                }
            }
        }
    }

    let mut conns_out = Vec::new();
    for i in 0..sc.conns.len() {
        let sock = sh.socks.borrow()[i].st.clone();
        let sock = sock.borrow();
        let rec = sh.conns.borrow()[i].clone();
        let rec = rec.borrow();
        let (task_done, polls, wakes, streak) = match cstate[i].task {
            Some(t) => (ex.tasks[t].done, ex.tasks[t].polls, ex.tasks[t].flag.wake_count(), ex.tasks[t].max_self_wake_streak),
            None => (false, 0, 0, 0),
        };
        fnv(&mut trace_hash, resp::canon_hash(&sock.out));
        for s in &rec.seen {
            fnv(&mut trace_hash, s.body.len() as u64);
            for b in s.target.bytes() {
                fnv(&mut trace_hash, b as u64);
            }
        }
        fnv(&mut trace_hash, rec.result.as_ref().map(|r| 1 + r.0.is_ok() as u64).unwrap_or(0));
        conns_out.push(ConnOut {
            out: sock.out.clone(),
            marks: sock.marks.clone(),
            seen: rec.seen.clone(),
            bodies: rec.bodies.clone(),
            expect_calls: rec.expect_calls,
            result: rec.result.clone(),
            read_total: sock.read_total,
            delivered_total: sock.delivered_total,
            stream_len: cstate[i].stream.len(),
            saw_eof_at: sock.saw_eof_at,
            eof_sent_at: eof_sent[i],
            reset_sent_at: reset_sent[i],
            shutdown_called: sock.shutdown_called,
            shutdown_done: sock.shutdown_done,
            dropped: sock.dropped,
            deliveries: deliveries[i].clone(),
            reads: sock.reads.clone(),
            task_done,
            probe_progress: probe[i].clone(),
            polls,
            wakes,
            max_self_wake_streak: streak,
            max_read_ahead: max_ra[i],
            max_write_ahead: max_wa[i],
            write_after_shutdown: sock.write_after_shutdown,
            started_ms: started_ms[i],
            flush_calls: sock.flush_calls,
            flush_ready_steps: sock.flush_ready_steps.clone(),
            parked_steps: parked[i].clone(),
            lost_staged: sock.staged.clone(),
        });
    }
    if narr {
        for (i, c) in conns_out.iter().enumerate() {
            narrative.push(format!(
                "end c{}: result={:?} task_done={} shutdown_called={:?} dropped={:?} saw_eof={:?} delivered={}/{} read={} out={}",
                i, c.result, c.task_done, c.shutdown_called, c.dropped, c.saw_eof_at, c.delivered_total, c.stream_len, c.read_total, c.out.len()
            ));
            for s in &c.seen {
                narrative.push(format!("  call {}: {} {} body={}B end={:?} answered={:?}", s.idx, s.method, s.target, s.body.len(), s.body_end, s.answered));
            }
            narrative.push(format!("  out: {:?}", String::from_utf8_lossy(&c.out[..c.out.len().min(600)])));
        }
    }
    let mut stats = sh.stats.borrow().clone();
    for i in 0..sc.conns.len() {
        let sock = sh.socks.borrow()[i].st.clone();
        for (k, v) in sock.borrow().stats.iter() {
            *stats.entry(k).or_insert(0) += v;
        }
    }
    let extra_unfinished: Vec<String> = extra_tasks.iter().filter(|(t, _)| !ex.tasks[*t].done).map(|(_, n)| n.clone()).collect();
    let end_ms = ex.now_ms();
    let heap_peak = crate::alloc::peak();
    let tape_rec = tape.borrow().record.clone();
    // drop everything that holds the code under test before leaving the runtime
    drop(ex);
    drop(handler);
    drop(factory);
    H1Out {
        conns: conns_out,
        trace_hash,
        steps,
        end_ms,
        quiescent,
        budget_exceeded,
        stats,
        tape: tape_rec,
        narrative,
        signal_fired,
        gate_opened,
        extra_tasks_unfinished: extra_unfinished,
        heap_peak,
        heap_base,
    }
}

fn snapshot(sh: &Shared, i: usize) -> (usize, usize, usize, bool, bool, usize) {
    let sock = sh.socks.borrow()[i].st.clone();
    let sock = sock.borrow();
    let rec = sh.conns.borrow()[i].clone();
    let rec = rec.borrow();
    let pulled: usize = rec.bodies.iter().map(|b| b.pulled.len()).sum();
    (sock.read_total, sock.out.len(), rec.seen.len(), sock.shutdown_called.is_some(), sock.dropped.is_some(), pulled)
}

fn act_code(a: Act) -> u64 {
    match a {
        Act::Run(_) => 1,
        Act::Spurious(_) => 2,
        Act::Deliver(_) => 3,
        Act::End(_) => 4,
        Act::ReadWake(_) => 5,
        Act::FlushReady(_) => 6,
        Act::ShutdownReady(_) => 7,
        Act::Grant(_) => 8,
        Act::PeerReset(_) => 9,
        Act::OpenGate(_) => 10,
        Act::Signal => 11,
        Act::StartConn(_) => 12,
        Act::Abort(_) => 13,
    }
}
