//! C06: time-bounded connections (slow head, keep-alive, disconnect timeout, graceful shutdown).
//!
//! All time is tokio's paused clock. The server reads time through `DateService`, refreshed every
//! 500 ms, so every deadline may lie up to 500 ms *before* its nominal value: the legal firing
//! window of a timer with nominal deadline `d` is `[d - 500 - EPS, d + EPS]`.

use super::{gen::*, oracle::*, oracle2::step_of_offset, scenario::*, world::*};
use crate::{
    batch::Violation,
    resp,
    rng::Rng,
    sock::{ShutPlan, SockPlan},
};

pub const EPS: u64 = 10;
pub const RES: u64 = 500;

fn simple_req(id: u32, conn_opt: ConnOpt) -> Req {
    Req {
        id,
        method: "GET".into(),
        minor: 1,
        conn_opt,
        expect100: false,
        headers: vec![],
        framing: Framing::None,
        body_len: 0,
        body_kind: BodyKind::Smuggle,
        malformed: None,
        target: None,
    }
}

fn base_conn(reqs: Vec<Req>, start_ms: u32) -> ConnScript {
    ConnScript {
        reqs,
        raw: None,
        segs: vec![],
        end: End::KeepOpen,
        reset_after_out: None,
        sock: SockPlan::default(),
        grants: vec![],
        progs: vec![],
        start_ms,
        writes_blocked_after_grants: false,
    }
}

/// Where a delay falls relative to a nominal deadline `d` (measured from the same origin).
fn pick_delay(rng: &mut Rng, d: u64) -> u64 {
    match rng.below(8) {
        0 => 0,
        1 => rng.below(d.saturating_sub(RES + 2 * EPS).max(1)),          // clearly before
        2 => d.saturating_sub(RES + 2 * EPS + 1),                        // just before the window
        3 => d.saturating_sub(rng.below(RES + 1)),                       // inside the window
        4 => d.saturating_sub(1),
        5 => d,
        6 => d + 1 + 2 * EPS,                                            // just after
        _ => d + 2 * EPS + 1 + rng.below(3000),                          // clearly after
    }
}

pub fn gen_c06(rng: &mut Rng, idx: u64) -> H1Scenario {
    let start_ms = rng.below(1000) as u32;
    let kind = idx % 4;
    let mut cfg = Cfg::default();
    let mut gates = vec![];
    let mut signal = None;
    let note;
    let mut conn;
    match kind {
        0 => {
            // slow first head
            let t = *rng.pick(&[1000u64, 2000, 5000]);
            cfg.req_timeout_ms = if rng.chance(1, 10) { 0 } else { t };
            cfg.keep_alive = if rng.chance(1, 2) { Ka::Os } else { Ka::TimeoutMs(*rng.pick(&[1000u64, 5000])) };
            cfg.disc_timeout_ms = if rng.chance(1, 3) { *rng.pick(&[500u64, 1000]) } else { 0 };
            conn = base_conn(vec![simple_req(1, ConnOpt::Absent)], start_ms);
            let stream = conn.stream();
            let n = stream.len();
            // the head arrives in 2..4 pieces; the last piece completes it at `x` after the start
            let x = pick_delay(rng, t);
            let pieces = rng.range(2, 4);
            let mut cuts: Vec<usize> = (0..pieces - 1).map(|_| rng.range(1, n - 1)).collect();
            cuts.sort();
            cuts.dedup();
            let mut segs = Vec::new();
            let k = cuts.len();
            let mut spent = 0u64;
            for (i, c) in cuts.iter().enumerate() {
                let d = if x > 0 && i < k { rng.below(x / (k as u64 + 1) + 1) } else { 0 };
                spent += d;
                segs.push(Seg { end: *c, delay_ms: d as u32, wait: Wait::Time });
            }
            segs.push(Seg { end: n, delay_ms: x.saturating_sub(spent) as u32, wait: Wait::Time });
            conn.segs = segs;
            if rng.chance(1, 6) {
                // never completes at all
                conn.segs.pop();
            }
            note = "c06-slow-head";
        }
        1 => {
            // keep-alive expiry versus a second request
            let k = *rng.pick(&[1000u64, 2000, 5000]);
            cfg.keep_alive = Ka::TimeoutMs(k);
            cfg.req_timeout_ms = if rng.chance(1, 2) { 0 } else { 5000 };
            cfg.disc_timeout_ms = if rng.chance(1, 3) { *rng.pick(&[500u64, 1000]) } else { 0 };
            // a chunked upload the handler ignores: the response goes out early, the rest of the
            // body arrives in a later read and is drained by the dispatcher; afterwards the
            // connection is idle and the keep-alive timer must still close it (seed C06-3)
            let upload = rng.chance(1, 4);
            let second = !upload && rng.chance(3, 4);
            let mut first = simple_req(1, ConnOpt::Absent);
            if upload {
                first.method = "POST".into();
                first.framing = gen_chunked(rng);
                if let Framing::Chunked { sizes, .. } = &first.framing {
                    first.body_len = sizes.iter().sum();
                }
            }
            let mut reqs = vec![first];
            if second {
                reqs.push(simple_req(2, ConnOpt::Absent));
            }
            conn = base_conn(reqs, start_ms);
            let layout = conn.layout();
            let mut segs = vec![Seg { end: layout[0].2, delay_ms: rng.below(300) as u32, wait: Wait::Time }];
            if upload {
                let cut = rng.range(layout[0].1, layout[0].2 - 1);
                segs = vec![
                    Seg { end: cut, delay_ms: rng.below(300) as u32, wait: Wait::Time },
                    Seg { end: layout[0].2, delay_ms: rng.range(1, 250) as u32, wait: Wait::Time },
                ];
                conn.progs = vec![Prog { steps: vec![Step::DropPayload], answer: Answer::ok_empty() }];
            }
            if second {
                let d = pick_delay(rng, k);
                // optionally the second head itself arrives in two pieces
                if rng.chance(1, 3) {
                    // the rest may come much later: once the first bytes arrived in time the
                    // connection is no longer idle
                    let mid = rng.range(layout[1].0 + 1, layout[1].2 - 1);
                    segs.push(Seg { end: mid, delay_ms: d as u32, wait: Wait::Time });
                    let rest = if rng.chance(1, 2) { rng.below(50) } else { rng.below(k + 1500) };
                    segs.push(Seg { end: layout[1].2, delay_ms: rest as u32, wait: Wait::Time });
                } else {
                    segs.push(Seg { end: layout[1].2, delay_ms: d as u32, wait: Wait::Time });
                }
            }
            conn.segs = segs;
            if second && rng.chance(1, 3) {
                // the second handler takes longer than the keep-alive period
                gates.push(GateEv { at_ms: start_ms as u64 + 300 + k + rng.below(k + 1000) });
                conn.progs = vec![Prog::benign(), Prog { steps: vec![Step::Gate(0)], answer: Answer::ok_empty() }];
            }
            note = "c06-keep-alive";
        }
        2 => {
            // shutdown must not outlast the disconnect timeout
            let d = *rng.pick(&[500u64, 1000, 3000]);
            cfg.disc_timeout_ms = d;
            let via = rng.below(5);
            match via {
                3 => {
                    // the peer stops reading: the final flush can never complete; shutdown is
                    // entered by the peer's half-close while the response is still unwritten
                    cfg.keep_alive = Ka::Os;
                    conn = base_conn(vec![simple_req(1, ConnOpt::Absent)], start_ms);
                    conn.sock.gated_writes = true;
                    conn.grants = if rng.chance(1, 2) { vec![] } else { vec![(rng.range(1, 40), 0)] };
                    conn.writes_blocked_after_grants = true;
                }
                4 => {
                    // the peer stops reading and never completes its first head: shutdown is
                    // entered by the 408
                    cfg.keep_alive = Ka::Os;
                    cfg.req_timeout_ms = 1000;
                    conn = base_conn(vec![simple_req(1, ConnOpt::Absent)], start_ms);
                    conn.sock.gated_writes = true;
                    conn.grants = if rng.chance(1, 2) { vec![] } else { vec![(rng.range(1, 20), 0)] };
                    conn.writes_blocked_after_grants = true;
                }
                0 => {
                    // close asked by the request
                    cfg.keep_alive = Ka::Os;
                    conn = base_conn(vec![simple_req(1, ConnOpt::Close)], start_ms);
                }
                1 => {
                    // keep-alive expiry
                    cfg.keep_alive = Ka::TimeoutMs(1000);
                    conn = base_conn(vec![simple_req(1, ConnOpt::Absent)], start_ms);
                }
                _ => {
                    // early response to a request whose body is left unread (linger)
                    cfg.keep_alive = Ka::Os;
                    let mut r = simple_req(1, ConnOpt::Absent);
                    r.method = "POST".into();
                    r.framing = Framing::Cl;
                    r.body_len = 1000;
                    conn = base_conn(vec![r], start_ms);
                    conn.progs = vec![Prog { steps: vec![Step::DropPayload], answer: Answer::ok_empty() }];
                }
            }
            let n = conn.stream().len();
            let first = if via == 2 { conn.layout()[0].1 + 10 } else if via == 4 { n - 3 } else { n };
            conn.segs = vec![Seg { end: first, delay_ms: rng.below(300) as u32, wait: Wait::Time }];
            conn.sock.shutdown = match rng.below(4) {
                0 => ShutPlan::Ready,
                1 => ShutPlan::PendingMs((d / 2) as u32),
                2 => ShutPlan::PendingMs((d * 3) as u32),
                _ => ShutPlan::PendingForever,
            };
            conn.end = match rng.below(3) {
                _ if via == 3 => End::HalfClose { delay_ms: rng.below(d) as u32 },
                _ if via == 4 => End::KeepOpen,
                0 => End::KeepOpen,
                1 => End::HalfClose { delay_ms: (d * 4) as u32 },
                _ => End::HalfClose { delay_ms: rng.below(d) as u32 },
            };
            note = "c06-disconnect";
        }
        _ => {
            // graceful shutdown signal
            cfg.keep_alive = if rng.chance(1, 2) { Ka::Os } else { Ka::TimeoutMs(5000) };
            cfg.disc_timeout_ms = if rng.chance(1, 2) { 1000 } else { 0 };
            let nreq = rng.range(1, 3);
            let reqs: Vec<Req> = (0..nreq).map(|i| simple_req(i as u32 + 1, ConnOpt::Absent)).collect();
            conn = base_conn(reqs, start_ms);
            let layout = conn.layout();
            // first handler waits on a gate; its response body may stream behind a second gate
            let g_open = rng.below(2000);
            gates.push(GateEv { at_ms: start_ms as u64 + g_open });
            let mut a = Answer::ok_empty();
            if rng.chance(1, 2) {
                gates.push(GateEv { at_ms: start_ms as u64 + g_open + rng.below(1000) });
                a.body = BodySpec::Stream { chunks: vec![5, 7] };
                a.chunk_gates = vec![None, Some(1)];
            }
            conn.progs = vec![Prog { steps: vec![Step::Gate(0)], answer: a }];
            let pipelined = rng.chance(1, 2);
            let mut segs = vec![];
            for (i, l) in layout.iter().enumerate() {
                let d = if i == 0 { rng.below(300) } else if pipelined { 0 } else { rng.below(2500) };
                segs.push(Seg { end: l.2, delay_ms: d as u32, wait: Wait::Time });
            }
            conn.segs = segs;
            signal = Some(start_ms as u64 + rng.below(3000));
            note = "c06-graceful";
        }
    }
    let horizon = cfg.req_timeout_ms.max(cfg.disc_timeout_ms).max(match cfg.keep_alive {
        Ka::TimeoutMs(k) => k,
        _ => 0,
    }) + 1500;
    H1Scenario {
        note: note.to_string(),
        cfg,
        conns: vec![conn],
        gates,
        signal_at_ms: signal,
        sched: gen_sched(rng),
        horizon_ms: horizon,
        max_steps: 50_000,
    }
}

fn close_time(co: &ConnOut) -> Option<u64> {
    let a = co.shutdown_called.map(|x| x.0);
    let b = co.dropped.map(|x| x.0);
    match (a, b) {
        (Some(x), Some(y)) => Some(x.min(y)),
        (x, y) => x.or(y),
    }
}

fn done_time(co: &ConnOut) -> Option<u64> {
    co.result.as_ref().map(|r| r.1)
}

/// Virtual time at which the last byte of the stream prefix `..end` had been delivered.
fn delivered_time(co: &ConnOut, end: usize) -> Option<u64> {
    let mut tot = 0usize;
    for d in &co.deliveries {
        tot += d.2;
        if tot >= end {
            return Some(d.0);
        }
    }
    None
}

pub fn check_c06(sc: &H1Scenario, out: &H1Out) -> Vec<Violation> {
    let mut vs = Vec::new();
    check_no_smuggle(sc, out, &mut vs);
    let cs = &sc.conns[0];
    let co = &out.conns[0];
    let t0 = co.started_ms;
    let p = parse_out_plan(sc, 0, co);
    let finals: Vec<&resp::ParsedResp> = p.resps.iter().filter(|r| !r.is_interim()).collect();
    let layout = cs.layout();
    if out.budget_exceeded {
        vs.push(Violation::new("C06.disconnect-bounded", "never-quiescent", format!("the connection keeps being woken for ever without finishing ({} steps, virtual time {} ms)", out.steps, out.end_ms)));
        return vs;
    }
    // at most one response per request, ever (timer/data races must not produce a second one)
    if finals.len() > cs.reqs.len().max(1) {
        vs.push(Violation::new("C06.no-timer-panic", "extra-response", format!("{} final responses for {} requests", finals.len(), cs.reqs.len())));
    }
    let n408 = finals.iter().filter(|r| r.status == 408).count();

    match sc.note.as_str() {
        "c06-slow-head" => {
            let t = sc.cfg.req_timeout_ms;
            let head_done = delivered_time(co, layout[0].1);
            if t == 0 {
                if n408 > 0 {
                    vs.push(Violation::new("C06.slow-head-408", "408-with-timer-disabled", "a 408 was written although the request timeout is disabled".to_string()));
                }
            } else {
                let deadline = t0 + t;
                let early = head_done.map(|h| h + RES + EPS < deadline).unwrap_or(false);
                let late = head_done.map(|h| h > deadline + EPS).unwrap_or(true);
                if early {
                    if n408 > 0 {
                        vs.push(Violation::new(
                            "C06.slow-head-408",
                            "408-although-head-in-time",
                            format!("head complete at {} ms, nominal deadline {} ms (connection started {} ms, timeout {} ms), yet a 408 was written", head_done.unwrap(), deadline, t0, t),
                        ));
                    }
                    if !finals.iter().any(|r| r.status == 200) {
                        vs.push(Violation::new("C06.slow-head-408", "in-time-request-not-served", format!("head complete at {} ms (deadline {} ms) but no 200 response was written", head_done.unwrap(), deadline)));
                    }
                }
                if late {
                    // by deadline + EPS the 408 must be on the wire and the connection closed
                    let w = finals.iter().find(|r| r.status == 408).and_then(|r| step_of_offset(co, r.start)).map(|x| x.0);
                    match w {
                        None => vs.push(Violation::new(
                            "C06.slow-head-408",
                            "no-408",
                            format!("head incomplete at the deadline {} ms (completed: {:?}) but no 408 was ever written; responses: {:?}", deadline, head_done, finals.iter().map(|r| r.status).collect::<Vec<_>>()),
                        )),
                        Some(w) => {
                            if w > deadline + EPS || w + RES + EPS < deadline {
                                vs.push(Violation::new("C06.slow-head-408", "408-outside-window", format!("408 written at {} ms, legal window [{}, {}]", w, deadline - RES - EPS, deadline + EPS)));
                            }
                            match close_time(co) {
                                Some(c) if c <= deadline + EPS + sc.cfg.disc_timeout_ms => {}
                                other => vs.push(Violation::new("C06.slow-head-408", "not-closed-after-408", format!("connection close observed at {:?}, 408 at {} ms", other, w))),
                            }
                            if co.seen.len() > 0 {
                                vs.push(Violation::new("C06.slow-head-408", "dispatched-after-408", "a request was dispatched on a connection that timed out".to_string()));
                            }
                        }
                    }
                }
            }
        }
        "c06-keep-alive" => {
            let k = match sc.cfg.keep_alive {
                Ka::TimeoutMs(k) => k,
                _ => 0,
            };
            // idle starts when response 1 has been written completely
            if let Some(r1) = finals.first().filter(|r| r.complete && r.status == 200) {
                let idle = step_of_offset(co, r1.end - 1).map(|x| x.0).unwrap_or(t0);
                let deadline = idle + k;
                let second_at = if cs.reqs.len() > 1 { delivered_time(co, layout[1].1) } else { None };
                let second_started = if cs.reqs.len() > 1 { delivered_time(co, layout[1].0 + 1) } else { None };
                let served2 = finals.len() >= 2 && finals[1].status == 200;
                match second_started {
                    Some(s) if s + RES + EPS < deadline => {
                        // the request was completely there before the window opened (a head that
                        // only *started* in time may be cut off by the keep-alive timer: bytes that
                        // were already buffered when the connection went idle do not disarm it)
                        let complete_in_time = second_at.map(|c| c + RES + EPS < deadline).unwrap_or(false);
                        if complete_in_time && !served2 {
                            vs.push(Violation::new(
                                "C06.keepalive",
                                "in-time-request-not-served",
                                format!("second request started arriving at {} ms, keep-alive deadline {} ms (idle since {} ms, keep-alive {} ms) but it was not served; close at {:?}", s, deadline, idle, k, close_time(co)),
                            ));
                        }
                    }
                    Some(s) if s > deadline + EPS => {
                        if served2 || co.seen.len() > 1 {
                            vs.push(Violation::new("C06.keepalive", "served-after-expiry", format!("second request arrived at {} ms, after the keep-alive deadline {} ms, and was still served", s, deadline)));
                        }
                    }
                    _ => {}
                }
                let quiet = second_started.map(|s| s > deadline + EPS).unwrap_or(true);
                // an ignored upload whose tail arrives after the early response: the connection may
                // count as idle from the end of the response or from the last drained body octet
                let (lo, hi) = match delivered_time(co, layout[0].2) {
                    Some(b) if cs.reqs[0].has_body() => (deadline.min(b + k), deadline.max(b + k)),
                    _ => (deadline, deadline),
                };
                if quiet {
                    match close_time(co) {
                        Some(c) if c + RES + EPS >= lo && c <= hi + EPS => {}
                        other => vs.push(Violation::new(
                            "C06.keepalive",
                            if other.is_none() { "idle-connection-never-closed" } else { "idle-close-outside-window" },
                            format!("idle since {} ms with keep-alive {} ms: close observed at {:?}, legal window [{}, {}]", idle, k, other, deadline - RES - EPS, deadline + EPS),
                        )),
                    }
                }
            } else if !finals.is_empty() || out.quiescent {
                vs.push(Violation::new("C06.keepalive", "first-request-not-served", format!("responses: {:?}", finals.iter().map(|r| r.status).collect::<Vec<_>>())));
            }
        }
        "c06-disconnect" => {
            let d = sc.cfg.disc_timeout_ms;
            // shutdown starts at the first poll_shutdown, or when lingering starts (response to the
            // unread request written); from then on the connection future must finish within d
            let linger = cs.progs.first().map(|p| p.steps.contains(&Step::DropPayload)).unwrap_or(false);
            let via = if linger { "linger" } else if sc.cfg.keep_alive == Ka::Os { "connection-close" } else { "keep-alive" };
            // lingering (reading and discarding after an early response) is bounded by d, and so
            // is the shutdown proper (final flush + poll_shutdown) that follows it
            if linger {
                if let Some(ls) = finals.first().and_then(|r| step_of_offset(co, r.end - 1)).map(|x| x.0) {
                    let le = co.shutdown_called.map(|x| x.0).or(done_time(co));
                    match le {
                        Some(e) if e <= ls + d + EPS => {}
                        other => vs.push(Violation::new(
                            "C06.disconnect-bounded",
                            "linger-outlasts-timeout",
                            format!("lingering began at {} ms (response written), disconnect timeout {} ms, but shutdown started / connection ended at {:?}", ls, d, other),
                        )),
                    }
                }
            }
            if cs.writes_blocked_after_grants {
                // shutdown begins with the peer's half-close (response answered) or with the 408
                // deadline; the final flush can never complete, so only the timeout ends it
                let start = if sc.cfg.req_timeout_ms > 0 { Some(t0 + sc.cfg.req_timeout_ms) } else { co.eof_sent_at.map(|x| x.0) };
                if let Some(s) = start {
                    match done_time(co) {
                        Some(e) if e <= s + d + EPS => {}
                        other => vs.push(Violation::new(
                            "C06.disconnect-bounded",
                            format!("via={}:peer-stopped-reading:outlasts-timeout", if sc.cfg.req_timeout_ms > 0 { "408" } else { "half-close" }),
                            format!("shutdown was due at {} ms, disconnect timeout {} ms, the peer never reads; connection future finished at {:?} (result {:?})", s, d, other, co.result.as_ref().map(|r| &r.0)),
                        )),
                    }
                }
                return vs;
            }
            match co.shutdown_called.map(|x| x.0) {
                None => {
                    if out.quiescent && !co.task_done {
                        vs.push(Violation::new("C06.disconnect-bounded", "shutdown-never-started", format!("connection still open at quiescence; responses {:?}", finals.iter().map(|r| r.status).collect::<Vec<_>>())));
                    }
                }
                Some(s) => match done_time(co) {
                    Some(e) if e <= s + d + EPS => {}
                    other => vs.push(Violation::new(
                        "C06.disconnect-bounded",
                        format!("via={}:shutdown={:?}:outlasts-timeout", via, cs.sock.shutdown),
                        format!("shutdown began at {} ms, disconnect timeout {} ms, connection future finished at {:?} (result {:?})", s, d, other, co.result.as_ref().map(|r| &r.0)),
                    )),
                },
            }
        }
        "c06-graceful" => {
            if let Some((sig_ms, sig_step)) = out.signal_fired {
                // no request whose handler had not been called at the signal instant is ever started
                for s in &co.seen {
                    if s.call_step > sig_step {
                        vs.push(Violation::new(
                            "C06.graceful",
                            "request-started-after-signal",
                            format!("{} {} dispatched at step {} ({} ms) after the shutdown signal (step {}, {} ms)", s.method, s.target, s.call_step, s.call_ms, sig_step, sig_ms),
                        ));
                    }
                }
                // the request in flight at the signal is answered, with Connection: close if its
                // head had not yet been encoded
                for (k, s) in co.seen.iter().enumerate() {
                    if s.call_step < sig_step {
                        if let Some((_, astep)) = s.answered {
                            match finals.get(k) {
                                Some(r) if r.complete || r.is_last() => {
                                    if astep > sig_step && !r.conn_close() {
                                        vs.push(Violation::new("C06.graceful", "in-flight-response-without-close", format!("response #{} encoded after the signal does not carry Connection: close", k)));
                                    }
                                }
                                _ => vs.push(Violation::new("C06.graceful", "in-flight-request-not-answered", format!("request #{} was in flight at the signal and its handler answered, but no complete response was written", k))),
                            }
                        }
                    }
                }
                // and afterwards the connection ends
                let last_answer = co.seen.iter().filter_map(|s| s.answered.map(|a| a.1)).max().unwrap_or(0);
                if out.quiescent && !conn_closed(co) && co.seen.iter().all(|s| s.answered.is_some()) && sig_step > 0 && last_answer > 0 {
                    let bodies_done = co.bodies.iter().all(|b| !b.created || b.ended || b.errored);
                    if bodies_done {
                        vs.push(Violation::new("C06.graceful", "connection-open-after-drain", "signal fired, in-flight work finished, connection still open at quiescence".to_string()));
                    }
                }
            }
        }
        _ => {}
    }
    vs
}
