//! H1 rig: scenario data types and the request writer (ground truth -> bytes).

use serde::{Deserialize, Serialize};

use crate::sock::SockPlan;

#[derive(Clone, Copy, Debug, Serialize, Deserialize, PartialEq, Eq)]
pub enum Ka {
    Disabled,
    Os,
    TimeoutMs(u64),
}

#[derive(Clone, Copy, Debug, Serialize, Deserialize, PartialEq, Eq)]
pub enum ExpectPlan {
    Accept,
    Reject(u16),
    GateThenAccept(usize),
}

#[derive(Clone, Debug, Serialize, Deserialize)]
pub struct Cfg {
    pub keep_alive: Ka,
    pub req_timeout_ms: u64,
    pub disc_timeout_ms: u64,
    pub half_closed: bool,
    pub write_buf: usize,
    pub expect: ExpectPlan,
}

impl Default for Cfg {
    fn default() -> Self {
        Cfg {
            keep_alive: Ka::Os,
            req_timeout_ms: 0,
            disc_timeout_ms: 0,
            half_closed: true,
            write_buf: 32_768,
            expect: ExpectPlan::Accept,
        }
    }
}

#[derive(Clone, Copy, Debug, Serialize, Deserialize, PartialEq, Eq)]
pub enum ConnOpt {
    Absent,
    Close,
    KeepAlive,
}

#[derive(Clone, Debug, Serialize, Deserialize, PartialEq, Eq)]
pub enum Framing {
    None,
    /// Content-Length: n (n = body length)
    Cl,
    Chunked {
        sizes: Vec<usize>,
        exts: Vec<Option<String>>,
        upper: bool,
        lead_zeros: u8,
        lws: bool,
        last_ext: Option<String>,
    },
}

#[derive(Clone, Copy, Debug, Serialize, Deserialize, PartialEq, Eq)]
pub enum BodyKind {
    /// text that looks like pipelined requests to `/SMUGGLED/<id>`
    Smuggle,
    /// pseudo-random bytes from a seed (includes CR, LF, NUL …)
    Pattern(u32),
}

#[derive(Clone, Copy, Debug, Serialize, Deserialize, PartialEq, Eq)]
pub enum Malformed {
    ClTe,
    DupClSame,
    DupClDiff,
    ClPlus,
    ClList,
    ClHex,
    ClNeg,
    ClEmpty,
    ClHuge,
    ClSpaceInside,
    TeGzip,
    TeIdentity,
    TeGzipChunked,
    TeChunkedChunked,
    TeChunkedGzip,
    TwoTeLines,
    TeOn10,
    Post10NoCl,
    ChunkNonHex,
    Chunk17Hex,
    ChunkMissingLf,
    ChunkNoCrlfAfterData,
    ChunkCtlInExt,
    ChunkLwsThenDigit,
    HeadOver128k,
    HeadTooLarge,
    TooManyHeaders,
    BadMethod,
    BadVersion,
    HeaderNoColon,
    NulInHeaderValue,
}

pub const ALL_MALFORMED: &[Malformed] = &[
    Malformed::ClTe,
    Malformed::DupClSame,
    Malformed::DupClDiff,
    Malformed::ClPlus,
    Malformed::ClList,
    Malformed::ClHex,
    Malformed::ClNeg,
    Malformed::ClEmpty,
    Malformed::ClHuge,
    Malformed::ClSpaceInside,
    Malformed::TeGzip,
    Malformed::TeIdentity,
    Malformed::TeGzipChunked,
    Malformed::TeChunkedChunked,
    Malformed::TeChunkedGzip,
    Malformed::TwoTeLines,
    Malformed::TeOn10,
    Malformed::Post10NoCl,
    Malformed::ChunkNonHex,
    Malformed::Chunk17Hex,
    Malformed::ChunkMissingLf,
    Malformed::ChunkNoCrlfAfterData,
    Malformed::ChunkCtlInExt,
    Malformed::ChunkLwsThenDigit,
    Malformed::HeadOver128k,
    Malformed::HeadTooLarge,
    Malformed::TooManyHeaders,
    Malformed::BadMethod,
    Malformed::BadVersion,
    Malformed::HeaderNoColon,
    Malformed::NulInHeaderValue,
];

impl Malformed {
    /// Head-level defect unrelated to framing: the request keeps its (correct) framing headers.
    pub fn keeps_framing(self) -> bool {
        matches!(
            self,
            Malformed::HeadOver128k
                | Malformed::HeadTooLarge
                | Malformed::TooManyHeaders
                | Malformed::BadMethod
                | Malformed::BadVersion
                | Malformed::HeaderNoColon
                | Malformed::NulInHeaderValue
        )
    }
    /// True when the defect sits in the chunked body (the head of that request is well-formed
    /// and is dispatched before the defect is met).
    pub fn in_body(self) -> bool {
        matches!(
            self,
            Malformed::ChunkNonHex
                | Malformed::Chunk17Hex
                | Malformed::ChunkMissingLf
                | Malformed::ChunkNoCrlfAfterData
                | Malformed::ChunkCtlInExt
                | Malformed::ChunkLwsThenDigit
        )
    }
}

#[derive(Clone, Debug, Serialize, Deserialize)]
pub struct Req {
    pub id: u32,
    pub method: String,
    /// HTTP minor version: 0 or 1
    pub minor: u8,
    pub conn_opt: ConnOpt,
    pub expect100: bool,
    pub headers: Vec<(String, String)>,
    pub framing: Framing,
    pub body_len: usize,
    pub body_kind: BodyKind,
    pub malformed: Option<Malformed>,
    /// overrides the default `/r/<id>` target
    pub target: Option<String>,
}

impl Req {
    pub fn target(&self) -> String {
        match &self.target {
            Some(t) => t.clone(),
            None => format!("/r/{}", self.id),
        }
    }
    pub fn has_body(&self) -> bool {
        !matches!(self.framing, Framing::None) && (self.body_len > 0 || self.is_chunked())
    }
    pub fn is_chunked(&self) -> bool {
        matches!(self.framing, Framing::Chunked { .. })
    }
    pub fn body(&self) -> Vec<u8> {
        body_bytes(self.id, self.body_kind, self.body_len)
    }
}

pub fn body_bytes(id: u32, kind: BodyKind, len: usize) -> Vec<u8> {
    let mut v = Vec::with_capacity(len);
    match kind {
        BodyKind::Smuggle => {
            let unit = format!("GET /SMUGGLED/{} HTTP/1.1\r\nhost: x\r\n\r\n", id);
            let u = unit.as_bytes();
            while v.len() < len {
                let take = (len - v.len()).min(u.len());
                v.extend_from_slice(&u[..take]);
            }
        }
        BodyKind::Pattern(seed) => {
            let mut x = (seed as u64) << 17 ^ (id as u64) ^ 0x5851_F42D_4C95_7F2D;
            while v.len() < len {
                let r = crate::rng::splitmix(&mut x);
                // bias towards interesting bytes
                let b = match r & 15 {
                    0 => b'\r',
                    1 => b'\n',
                    2 => b'0',
                    3 => b';',
                    4 => 0,
                    _ => (r >> 8) as u8,
                };
                v.push(b);
            }
        }
    }
    v
}

/// Serialise one request. Returns (bytes, head_len).
pub fn write_req(r: &Req) -> (Vec<u8>, usize) {
    use Malformed as M;
    let mut out = Vec::new();
    let body = r.body();
    let method = if r.malformed == Some(M::BadMethod) {
        "G<T".to_string()
    } else {
        r.method.clone()
    };
    let ver = if r.malformed == Some(M::BadVersion) {
        "HTTP/1.x".to_string()
    } else {
        format!("HTTP/1.{}", r.minor)
    };
    out.extend_from_slice(format!("{} {} {}\r\n", method, r.target(), ver).as_bytes());
    out.extend_from_slice(b"host: sim\r\n");
    match r.conn_opt {
        ConnOpt::Absent => {}
        ConnOpt::Close => out.extend_from_slice(b"connection: close\r\n"),
        ConnOpt::KeepAlive => out.extend_from_slice(b"connection: keep-alive\r\n"),
    }
    if r.expect100 {
        out.extend_from_slice(b"expect: 100-continue\r\n");
    }
    for (n, v) in &r.headers {
        out.extend_from_slice(format!("{}: {}\r\n", n, v).as_bytes());
    }
    // head-level defects that do not concern framing: the framing headers stay correct
    match r.malformed {
        Some(M::HeadOver128k) => {
            // 140 KB: above the documented 128 KiB limit but within one read of it
            for i in 0..70 {
                out.extend_from_slice(format!("x-big-{}: ", i).as_bytes());
                out.extend(std::iter::repeat(b'a').take(2000));
                out.extend_from_slice(b"\r\n");
            }
        }
        Some(M::HeadTooLarge) => {
            // 315 KB in 90 lines: beyond anything the read buffer can hold
            for i in 0..90 {
                out.extend_from_slice(format!("x-big-{}: ", i).as_bytes());
                out.extend(std::iter::repeat(b'a').take(3500));
                out.extend_from_slice(b"\r\n");
            }
        }
        Some(M::TooManyHeaders) => {
            for i in 0..120 {
                out.extend_from_slice(format!("x-many-{}: v\r\n", i).as_bytes());
            }
        }
        Some(M::HeaderNoColon) => out.extend_from_slice(b"this line has no colon\r\n"),
        Some(M::NulInHeaderValue) => out.extend_from_slice(b"x-nul: a\0b\r\n"),
        _ => {}
    }
    // framing headers
    let cl = |n: usize| format!("content-length: {}\r\n", n);
    let te = "transfer-encoding: chunked\r\n";
    match r.malformed {
        Some(M::ClTe) => {
            out.extend_from_slice(cl(body.len()).as_bytes());
            out.extend_from_slice(te.as_bytes());
        }
        Some(M::DupClSame) => {
            out.extend_from_slice(cl(body.len()).as_bytes());
            out.extend_from_slice(cl(body.len()).as_bytes());
        }
        Some(M::DupClDiff) => {
            out.extend_from_slice(cl(body.len()).as_bytes());
            out.extend_from_slice(cl(body.len() + 3).as_bytes());
        }
        Some(M::ClPlus) => out.extend_from_slice(format!("content-length: +{}\r\n", body.len()).as_bytes()),
        Some(M::ClList) => out.extend_from_slice(
            format!("content-length: {}, {}\r\n", body.len(), body.len()).as_bytes(),
        ),
        Some(M::ClHex) => out.extend_from_slice(format!("content-length: 0x{:x}\r\n", body.len()).as_bytes()),
        Some(M::ClNeg) => out.extend_from_slice(b"content-length: -1\r\n"),
        Some(M::ClEmpty) => out.extend_from_slice(b"content-length: \r\n"),
        Some(M::ClHuge) => out.extend_from_slice(b"content-length: 18446744073709551616\r\n"),
        Some(M::ClSpaceInside) => out.extend_from_slice(b"content-length: 1 0\r\n"),
        Some(M::TeGzip) => out.extend_from_slice(b"transfer-encoding: gzip\r\n"),
        Some(M::TeIdentity) => out.extend_from_slice(b"transfer-encoding: identity\r\n"),
        Some(M::TeGzipChunked) => out.extend_from_slice(b"transfer-encoding: gzip, chunked\r\n"),
        Some(M::TeChunkedChunked) => out.extend_from_slice(b"transfer-encoding: chunked, chunked\r\n"),
        Some(M::TeChunkedGzip) => out.extend_from_slice(b"transfer-encoding: chunked, gzip\r\n"),
        Some(M::TwoTeLines) => {
            out.extend_from_slice(te.as_bytes());
            out.extend_from_slice(te.as_bytes());
        }
        Some(M::TeOn10) => out.extend_from_slice(te.as_bytes()),
        Some(M::Post10NoCl) => {}
        _ => match &r.framing {
            Framing::None => {}
            Framing::Cl => out.extend_from_slice(cl(body.len()).as_bytes()),
            Framing::Chunked { .. } => out.extend_from_slice(te.as_bytes()),
        },
    }
    out.extend_from_slice(b"\r\n");
    let head_len = out.len();

    // body
    let body_framing_chunked = match r.malformed {
        Some(M::ClTe) | Some(M::TwoTeLines) | Some(M::TeOn10) | Some(M::TeGzipChunked)
        | Some(M::TeChunkedChunked) => true,
        Some(m) if m.in_body() => true,
        Some(m) if m.keeps_framing() => r.is_chunked(),
        Some(_) => false,
        None => r.is_chunked(),
    };
    if body_framing_chunked {
        let (sizes, exts, upper, lead_zeros, lws, last_ext) = match &r.framing {
            Framing::Chunked {
                sizes,
                exts,
                upper,
                lead_zeros,
                lws,
                last_ext,
            } => (
                sizes.clone(),
                exts.clone(),
                *upper,
                *lead_zeros,
                *lws,
                last_ext.clone(),
            ),
            _ => (vec![body.len().max(1)], vec![None], false, 0, false, None),
        };
        let mut off = 0usize;
        let mut k = 0usize;
        // which chunk carries the body-level defect: the second one if there are two
        let nchunks = {
            let mut o = 0;
            let mut n = 0;
            let mut kk = 0;
            while o < body.len() {
                let sz = sizes[kk % sizes.len()].max(1).min(body.len() - o);
                o += sz;
                n += 1;
                kk += 1;
            }
            n
        };
        let bad_at = if nchunks >= 2 { 1 } else { 0 };
        while off < body.len() {
            let sz = sizes[k % sizes.len()].max(1).min(body.len() - off);
            let mut line = String::new();
            for _ in 0..lead_zeros {
                line.push('0');
            }
            if upper {
                line.push_str(&format!("{:X}", sz));
            } else {
                line.push_str(&format!("{:x}", sz));
            }
            let is_bad = k == bad_at;
            if is_bad {
                match r.malformed {
                    Some(M::ChunkNonHex) => line = "g1".to_string(),
                    Some(M::Chunk17Hex) => line = "1".to_string() + &"0".repeat(16),
                    Some(M::ChunkLwsThenDigit) => line.push_str(" 1"),
                    _ => {}
                }
            }
            if lws {
                line.push(' ');
            }
            if let Some(Some(e)) = exts.get(k % exts.len().max(1)) {
                line.push(';');
                line.push_str(e);
            }
            if is_bad && r.malformed == Some(M::ChunkCtlInExt) {
                line.push_str(";a=\x01b");
            }
            out.extend_from_slice(line.as_bytes());
            if is_bad && r.malformed == Some(M::ChunkMissingLf) {
                out.extend_from_slice(b"\rX");
            } else {
                out.extend_from_slice(b"\r\n");
            }
            out.extend_from_slice(&body[off..off + sz]);
            if is_bad && r.malformed == Some(M::ChunkNoCrlfAfterData) {
                out.extend_from_slice(b"XY");
            } else {
                out.extend_from_slice(b"\r\n");
            }
            off += sz;
            k += 1;
        }
        out.extend_from_slice(b"0");
        if let Some(e) = last_ext {
            out.push(b';');
            out.extend_from_slice(e.as_bytes());
        }
        out.extend_from_slice(b"\r\n\r\n");
    } else {
        let send_body = match r.malformed {
            None => matches!(r.framing, Framing::Cl),
            Some(m) if m.keeps_framing() => matches!(r.framing, Framing::Cl),
            Some(_) => true,
        };
        if send_body {
            out.extend_from_slice(&body);
        }
    }
    (out, head_len)
}

// ------------------------------------------------------------------------------------------
// handler programs

#[derive(Clone, Debug, Serialize, Deserialize, PartialEq, Eq)]
pub enum Step {
    ReadAll,
    /// read all, returning Pending (with an immediate self-wake) once after every chunk
    ReadSlow,
    ReadChunks(u32),
    DropPayload,
    /// keep the payload object alive until the response body has been fully produced
    HoldPayload,
    /// move the payload to a separate simulator task which reads it to the end
    MovePayloadToTask,
    Gate(usize),
    /// return Pending n times, waking itself each time
    Yield(u32),
}

#[derive(Clone, Debug, Serialize, Deserialize, PartialEq, Eq)]
pub enum SizeClaim {
    None,
    Sized(u64),
    Stream,
}

#[derive(Clone, Debug, Serialize, Deserialize, PartialEq, Eq)]
pub enum BodySpec {
    /// `()` — BodySize::Sized(0)
    Empty,
    /// `body::None`
    NoneBody,
    Bytes(usize),
    /// actix_http::body::SizedStream
    Sized { len: u64, chunks: Vec<usize> },
    /// actix_http::body::BodyStream
    Stream { chunks: Vec<usize> },
    /// own MessageBody implementation
    Custom { claim: SizeClaim, chunks: Vec<usize> },
    /// BodyStream fed from a separate simulator task through a channel
    FromTask { chunks: Vec<usize> },
}

#[derive(Clone, Debug, Serialize, Deserialize, PartialEq, Eq)]
pub struct Answer {
    pub status: u16,
    pub headers: Vec<(String, String)>,
    pub force_close: bool,
    pub body: BodySpec,
    /// gate to wait for before chunk j (parallel to chunks; missing = none)
    pub chunk_gates: Vec<Option<usize>>,
    /// number of Pending+self-wake returns before each chunk
    pub chunk_yields: u32,
    /// body yields an error after this many chunks
    pub fail_after: Option<usize>,
    /// the service returns Err(response) instead of Ok(response)
    pub as_error: bool,
}

impl Answer {
    pub fn ok_empty() -> Self {
        Answer {
            status: 200,
            headers: vec![],
            force_close: false,
            body: BodySpec::Empty,
            chunk_gates: vec![],
            chunk_yields: 0,
            fail_after: None,
            as_error: false,
        }
    }
    pub fn chunks(&self) -> Vec<usize> {
        match &self.body {
            BodySpec::Empty | BodySpec::NoneBody => vec![],
            BodySpec::Bytes(n) => vec![*n],
            BodySpec::Sized { chunks, .. }
            | BodySpec::Stream { chunks }
            | BodySpec::Custom { chunks, .. }
            | BodySpec::FromTask { chunks } => chunks.clone(),
        }
    }
}

#[derive(Clone, Debug, Serialize, Deserialize, PartialEq, Eq)]
pub struct Prog {
    pub steps: Vec<Step>,
    pub answer: Answer,
}

impl Prog {
    pub fn benign() -> Self {
        Prog {
            steps: vec![Step::ReadAll],
            answer: Answer::ok_empty(),
        }
    }
}

/// Deterministic response-body content: byte at absolute offset `o` of the body of call `idx`.
pub fn resp_byte(idx: usize, o: usize) -> u8 {
    b'a' + ((o.wrapping_mul(7) + idx.wrapping_mul(13) + (o >> 8)) % 26) as u8
}

pub fn resp_bytes(idx: usize, off: usize, len: usize) -> Vec<u8> {
    (off..off + len).map(|o| resp_byte(idx, o)).collect()
}

// ------------------------------------------------------------------------------------------
// wire script

#[derive(Clone, Debug, Serialize, Deserialize, PartialEq, Eq)]
pub enum Wait {
    /// due `delay_ms` after the previous segment was delivered
    Time,
    /// additionally wait until the server has written this many `100 Continue` interim responses
    /// (or 1000 ms have passed — clients do not wait for ever)
    Continue(u32),
    /// additionally wait until this many complete final responses have been written
    Responses(u32),
    /// additionally wait until the bytes delivered but not yet read by the server are fewer than
    /// this (the peer's TCP send window)
    InboxBelow(u32),
}

#[derive(Clone, Debug, Serialize, Deserialize, PartialEq, Eq)]
pub struct Seg {
    /// end offset (exclusive) of this segment in the connection's byte stream
    pub end: usize,
    pub delay_ms: u32,
    pub wait: Wait,
}

#[derive(Clone, Copy, Debug, Serialize, Deserialize, PartialEq, Eq)]
pub enum End {
    KeepOpen,
    HalfClose { delay_ms: u32 },
    Reset { delay_ms: u32 },
    /// half-close once the server has written this many complete final responses
    HalfCloseAfterResponses { n: u32, delay_ms: u32 },
}

#[derive(Clone, Debug, Serialize, Deserialize)]
pub struct ConnScript {
    pub reqs: Vec<Req>,
    /// if present these raw bytes are sent instead of the serialised `reqs` (corruption runs)
    pub raw: Option<Vec<u8>>,
    pub segs: Vec<Seg>,
    pub end: End,
    /// peer resets the connection as soon as it has received this many response bytes
    pub reset_after_out: Option<usize>,
    pub sock: SockPlan,
    /// (bytes, delay_ms) — after the list is exhausted capacity becomes unlimited
    pub grants: Vec<(usize, u32)>,
    pub progs: Vec<Prog>,
    pub start_ms: u32,
    /// with gated writes: once `grants` is exhausted no further capacity is ever granted (a peer
    /// that stops reading for good) instead of capacity becoming unlimited
    #[serde(default)]
    pub writes_blocked_after_grants: bool,
}

impl ConnScript {
    pub fn stream(&self) -> Vec<u8> {
        if let Some(r) = &self.raw {
            return r.clone();
        }
        let mut v = Vec::new();
        for r in &self.reqs {
            v.extend_from_slice(&write_req(r).0);
        }
        v
    }
    /// (start, head_end, end) offsets of every request in the stream
    pub fn layout(&self) -> Vec<(usize, usize, usize)> {
        let mut v = Vec::new();
        let mut off = 0;
        for r in &self.reqs {
            let (b, h) = write_req(r);
            v.push((off, off + h, off + b.len()));
            off += b.len();
        }
        v
    }
    pub fn prog(&self, idx: usize) -> Prog {
        self.progs.get(idx).cloned().unwrap_or_else(Prog::benign)
    }
}

#[derive(Clone, Debug, Serialize, Deserialize)]
pub struct GateEv {
    pub at_ms: u64,
}

#[derive(Clone, Debug, Serialize, Deserialize)]
pub struct Sched {
    pub w_run: u32,
    pub w_deliver: u32,
    pub w_gate: u32,
    pub w_other: u32,
    /// per-mille chance per step of an explicit spurious poll of an unfinished task
    pub spurious_poll_pm: u32,
}

impl Default for Sched {
    fn default() -> Self {
        Sched {
            w_run: 1,
            w_deliver: 1,
            w_gate: 1,
            w_other: 1,
            spurious_poll_pm: 0,
        }
    }
}

#[derive(Clone, Debug, Serialize, Deserialize)]
pub struct H1Scenario {
    pub note: String,
    pub cfg: Cfg,
    pub conns: Vec<ConnScript>,
    pub gates: Vec<GateEv>,
    pub signal_at_ms: Option<u64>,
    pub sched: Sched,
    pub horizon_ms: u64,
    pub max_steps: u64,
}
