pub mod gen;
pub mod c05;
pub mod c06;
pub mod oracle;
pub mod oracle2;
pub mod scenario;
pub mod world;

use crate::{
    batch::{Rig, RunReport, Tier, Violation},
    rng::{Rng, Tape},
};
use scenario::*;
use world::*;

pub struct H1Rig {
    pub prop: &'static str,
}

pub fn nontrivial(sc: &H1Scenario, out: &H1Out) -> bool {
    // ≥2 requests or a body, and ≥1 schedule perturbation actually fired
    let reqs: usize = sc.conns.iter().map(|c| c.reqs.len()).sum();
    let has_body = sc.conns.iter().any(|c| c.reqs.iter().any(|r| r.body_len > 0));
    let segs: usize = sc.conns.iter().map(|c| c.segs.len()).sum();
    let perturbed = segs > sc.conns.len() || out.stats.iter().any(|(k, v)| *v > 0 && !k.starts_with("body_polled"));
    (reqs >= 2 || has_body) && perturbed
}

impl H1Rig {
    pub fn report(&self, sc: &H1Scenario, out: H1Out, vs: Vec<Violation>) -> RunReport {
        RunReport {
            violations: vs,
            trace_hash: out.trace_hash,
            nontrivial: nontrivial(sc, &out),
            states: vec![],
            sim_ms: out.end_ms,
            steps: out.steps,
            stats: out.stats,
            tape: out.tape,
            narrative: out.narrative,
        }
    }
}

impl Rig for H1Rig {
    type Sc = H1Scenario;
    fn property(&self) -> &'static str {
        self.prop
    }
    fn rig_name(&self) -> &'static str {
        "H1"
    }
    fn runs(&self, tier: Tier) -> u64 {
        match (self.prop, tier) {
            ("C01", Tier::Quick) => 500_000,
            ("C01", Tier::Thorough) => 20_000_000,
            ("C05", Tier::Quick) => 1_500,
            ("C05", Tier::Thorough) => 40_000,
            ("C04", Tier::Quick) => 400_000,
            ("C04", Tier::Thorough) => 30_000_000,
            (_, Tier::Quick) => 300_000,
            (_, Tier::Thorough) => 30_000_000,
        }
    }
    fn gen(&self, rng: &mut Rng, idx: u64, _tier: Tier) -> H1Scenario {
        match self.prop {
            "C01" => gen::gen_c01(rng, idx),
            "C02" => gen::gen_pipeline(rng, "C02"),
            "C03" => gen::gen_pipeline(rng, "C03"),
            "C04" => gen::gen_pipeline(rng, "C04"),
            "C05" => c05::gen_c05(rng, idx),
            "C06" => c06::gen_c06(rng, idx),
            _ => gen::gen_c01(rng, idx),
        }
    }
    fn run(&self, sc: &H1Scenario, tape: Tape, narrative: bool) -> RunReport {
        let out = run_h1(sc, tape, &RunOpts { narrative });
        let vs = match self.prop {
            "C01" => oracle::check_c01(sc, &out),
            "C02" => oracle::check_c02(sc, &out),
            "C03" => oracle2::check_c03(sc, &out),
            "C04" => oracle2::check_c04(sc, &out),
            "C05" => c05::check_c05(sc, &out),
            "C06" => c06::check_c06(sc, &out),
            _ => vec![],
        };
        self.report(sc, out, vs)
    }
    fn nontrivial_rule(&self) -> &'static str {
        "a run is one (scenario, schedule) execution of the real dispatcher; non-trivial = at least two requests or a request body AND at least one schedule perturbation actually fired (more than one input segment, short/1-byte read, injected Pending, partial write, write stall, flush Pending, handler/body stall, …); distinct = distinct canonical trace hash (sequence of scheduler actions with virtual time and per-step observable state, Date masked, header order ignored)"
    }
    fn real_components(&self) -> Vec<&'static str> {
        vec!["actix_http::HttpService", "actix_http::h1::Dispatcher", "h1::Codec / MessageDecoder / PayloadDecoder / ChunkedState", "h1::encoder (MessageEncoder, TransferEncoding)", "h1::Payload / PayloadSender", "h1::timer, config::ServiceConfig, DateService (on tokio's paused clock)", "body::{SizedStream, BodyStream, BoxBody}"]
    }
    fn stub_components(&self) -> Vec<&'static str> {
        vec!["socket (SimSocket: scripted AsyncRead/AsyncWrite)", "peer (byte script with virtual delays)", "application service, expect service and response bodies (scripted programs)", "executor (simulator-owned, wake-driven) and clock (tokio paused clock)"]
    }
    fn assumptions(&self) -> Vec<&'static str> {
        vec![
            "TCP semantics: bytes within a connection are never lost, duplicated or reordered; only segmentation, readiness, timing and truncation vary",
            "fairness: every injected stall is finite (the socket is eventually writable, every gate eventually opens)",
            "sampling: a clean batch is evidence, not proof",
        ]
    }
    fn expected_probes(&self) -> Vec<&'static str> {
        vec!["short_read", "one_byte_read", "read_spurious_pending", "partial_write", "flush_pending"]
    }
}
