//! Rig WK (C11): one `actix_web::App` service instance (one "worker") shared by several HTTP/1
//! connections over `SimSocket`s; handlers dump everything reachable from `HttpRequest`; every
//! dump must equal the dump a *fresh* service instance produces for that request alone.

use std::{
    cell::RefCell,
    collections::BTreeMap,
    rc::Rc,
    time::Duration,
};

use actix_http::{HttpService, Protocol};
use actix_service::{map_config, Service, ServiceFactory};
use actix_web::{dev::AppConfig, web, App, HttpMessage, HttpRequest, HttpResponse};
use serde::{Deserialize, Serialize};

use crate::{
    batch::{Rig, RunReport, Tier, Violation},
    exec::{gate::Gates, run_sim, Exec, Idle},
    resp,
    rng::{Rng, Tape},
    sock::{new_socket, Clock, ServerEnd, SimSocket, SockPlan},
};

struct ConnTag(usize);
struct MwTag(String);
struct RootData(&'static str);
struct ScopeAData(&'static str);
struct ScopeBData(&'static str);

struct WkShared {
    gates: Gates,
    bag: RefCell<Vec<HttpRequest>>,
    calls: RefCell<u64>,
}

fn dump(req: &HttpRequest) -> String {
    let mut s = String::new();
    s.push_str(&format!("method={}\nuri={}\nversion={:?}\n", req.method(), req.uri(), req.version()));
    let mut hs: Vec<(String, String)> = req.headers().iter().map(|(n, v)| (n.as_str().to_string(), String::from_utf8_lossy(v.as_bytes()).to_string())).collect();
    hs.sort();
    for (n, v) in hs {
        s.push_str(&format!("h:{}={}\n", n, v));
    }
    let mi: Vec<(String, String)> = req.match_info().iter().map(|(k, v)| (k.to_string(), v.to_string())).collect();
    s.push_str(&format!("match_info={:?}\nmatch_name={:?}\nmatch_pattern={:?}\npath={}\nquery={}\n", mi, req.match_name(), req.match_pattern(), req.path(), req.query_string()));
    s.push_str(&format!("ext_mw={:?}\n", req.extensions().get::<MwTag>().map(|m| m.0.clone())));
    s.push_str(&format!("ext_len_marker={}\n", req.extensions().contains::<MwTag>()));
    s.push_str(&format!("conn={:?}\n", req.conn_data::<ConnTag>().map(|c| c.0)));
    s.push_str(&format!("root={:?} a={:?} b={:?}\n", req.app_data::<RootData>().map(|d| d.0), req.app_data::<ScopeAData>().map(|d| d.0), req.app_data::<ScopeBData>().map(|d| d.0)));
    s.push_str(&format!("peer={:?}\n", req.peer_addr()));
    s
}

async fn handler(req: HttpRequest, sh: web::Data<Rc<WkShared>>) -> HttpResponse {
    *sh.calls.borrow_mut() += 1;
    let q = req.query_string().to_string();
    // dump at entry
    let d1 = dump(&req);
    for kv in q.split('&') {
        if let Some(g) = kv.strip_prefix("g=") {
            if let Ok(g) = g.parse::<usize>() {
                sh.gates.wait(g).await;
            }
        }
        if kv == "keep=1" {
            sh.bag.borrow_mut().push(req.clone());
        }
        if kv == "ext=1" {
            req.extensions_mut().insert(MwTag("set-by-handler".into()));
        }
    }
    // and again after the wait: nothing another request did in between may show up
    let mut d2 = dump(&req);
    if q.split('&').any(|kv| kv == "ext=1") {
        d2 = d1.clone();
    }
    let body = if d1 == d2 { d1 } else { format!("DUMP CHANGED DURING HANDLER\n--- before\n{}--- after\n{}", d1, d2) };
    HttpResponse::Ok().insert_header(("content-type", "text/plain")).body(body)
}

async fn make_handler(sh: Rc<WkShared>) -> impl Service<(ServerEnd, Protocol, Option<std::net::SocketAddr>), Response = (), Error = actix_http::error::DispatchError> {
    let sh_app = sh.clone();
    let app = move || {
        App::new()
            .app_data(web::Data::new(sh_app.clone()))
            .app_data(RootData("root"))
            .wrap_fn(|req, srv| {
                // request-local extension set by a middleware for some requests only
                if req.query_string().split('&').any(|kv| kv == "mw=1") {
                    let p = req.path().to_string();
                    req.extensions_mut().insert(MwTag(p));
                }
                srv.call(req)
            })
            .service(
                web::scope("/a")
                    .app_data(ScopeAData("scope-a"))
                    .service(web::resource("/item/{id}").name("a_item").to(handler))
                    .service(web::resource("/x/{p}/{q}").to(handler)),
            )
            .service(web::scope("/b/{tenant}").app_data(ScopeBData("scope-b")).service(web::resource("/item/{id}").name("b_item").to(handler)))
            .service(web::resource("/plain").to(handler))
            .default_service(web::to(handler))
    };
    let factory = HttpService::<ServerEnd, _, _>::build()
        .keep_alive(actix_http::KeepAlive::Os)
        .client_request_timeout(Duration::ZERO)
        .on_connect_ext(|io: &ServerEnd, ext| {
            let id = io.st.borrow().id;
            ext.insert(ConnTag(id));
        })
        .finish(map_config(app(), |_| AppConfig::default()));
    factory.new_service(()).await.expect("service init")
}

#[derive(Clone, Debug, Serialize, Deserialize)]
pub struct WkReq {
    pub conn: usize,
    pub target: String,
    pub headers: Vec<(String, String)>,
}

#[derive(Clone, Debug, Serialize, Deserialize)]
pub struct WkScenario {
    pub nconns: usize,
    /// requests in global issue order; each connection sends its own in order, the next one only
    /// after the previous response arrived
    pub reqs: Vec<WkReq>,
    pub ngates: usize,
    /// connection to abort (its task is dropped) once it has a handler waiting on a gate
    pub abort_conn: Option<usize>,
    /// extra connections that each park one gated request (to exceed the request-object pool)
    pub flood: usize,
}

fn req_bytes(r: &WkReq) -> Vec<u8> {
    let mut s = format!("GET {} HTTP/1.1\r\nhost: sim\r\n", r.target);
    for (n, v) in &r.headers {
        s.push_str(&format!("{}: {}\r\n", n, v));
    }
    s.push_str("\r\n");
    s.into_bytes()
}

#[derive(Default)]
struct Out {
    /// per request index: the response body
    bodies: BTreeMap<usize, String>,
    statuses: BTreeMap<usize, u16>,
    steps: u64,
    stats: BTreeMap<&'static str, u64>,
    stuck: Option<String>,
    tape: Vec<u32>,
}

async fn run_world(sc: WkScenario, tape: Tape) -> Out {
    let tape = Rc::new(RefCell::new(tape));
    let clock = Clock::new();
    let gates = Gates::new(sc.ngates + 1);
    let flood_gate = sc.ngates;
    let sh = Rc::new(WkShared { gates: gates.clone(), bag: RefCell::new(Vec::new()), calls: RefCell::new(0) });
    let handler = make_handler(sh.clone()).await;
    tokio::task::yield_now().await;
    let mut ex = Exec::new();
    let total_conns = sc.nconns + sc.flood;
    let mut socks: Vec<SimSocket> = Vec::new();
    let mut tasks = Vec::new();
    for i in 0..total_conns {
        let (se, ss) = new_socket(SockPlan::default(), tape.clone(), clock.clone());
        se.st.borrow_mut().id = i;
        let fut = handler.call((se, Protocol::Http1, Some(format!("127.0.0.1:{}", 2000 + i).parse().unwrap())));
        let t = ex.spawn(&format!("conn-{}", i), async move {
            let _ = fut.await;
        });
        socks.push(ss);
        tasks.push(t);
    }
    // flood connections park one gated request each
    for i in sc.nconns..total_conns {
        let r = WkReq { conn: i, target: format!("/a/item/flood{}?g={}&keep=1", i, flood_gate), headers: vec![] };
        socks[i].st.borrow_mut().deliver(&req_bytes(&r));
    }
    // per connection: indices of its requests, how many sent, how many answered
    let mut per: Vec<Vec<usize>> = vec![Vec::new(); sc.nconns];
    for (i, r) in sc.reqs.iter().enumerate() {
        if r.conn < sc.nconns {
            per[r.conn].push(i);
        }
    }
    let mut sent = vec![0usize; sc.nconns];
    let mut gate_open = vec![false; sc.ngates];
    let mut aborted = vec![false; total_conns];
    let mut out = Out::default();
    let answered = |s: &SimSocket| -> usize { resp::parse_stream(&s.st.borrow().out, &[], false).resps.iter().filter(|r| r.complete).count() };
    loop {
        out.steps += 1;
        if out.steps > 200_000 {
            out.stuck = Some("step budget".into());
            break;
        }
        #[derive(Clone, Copy)]
        enum A {
            Run(usize),
            Send(usize),
            Gate(usize),
            EmptyBag,
            Abort(usize),
        }
        let mut acts: Vec<A> = Vec::new();
        for t in ex.runnable() {
            acts.push(A::Run(t));
        }
        for c in 0..sc.nconns {
            if aborted[c] {
                continue;
            }
            if sent[c] < per[c].len() && answered(&socks[c]) >= sent[c] {
                acts.push(A::Send(c));
            }
        }
        for g in 0..sc.ngates {
            if !gate_open[g] {
                acts.push(A::Gate(g));
            }
        }
        if !sh.bag.borrow().is_empty() {
            acts.push(A::EmptyBag);
        }
        if let Some(c) = sc.abort_conn {
            if c < sc.nconns && !aborted[c] && sent[c] > answered(&socks[c]) {
                acts.push(A::Abort(c));
            }
        }
        if acts.is_empty() {
            // everything that can be answered has been; release the flood and finish
            if sc.flood > 0 && !gates.is_open(flood_gate) {
                gates.open(flood_gate);
                continue;
            }
            let pending: usize = (0..sc.nconns).filter(|c| !aborted[*c]).map(|c| per[c].len() - answered(&socks[c]).min(per[c].len())).sum();
            if pending == 0 {
                break;
            }
            let dl = ex.now() + Duration::from_secs(2);
            if ex.idle_until(dl).await == Idle::Deadline {
                out.stuck = Some(format!("{} requests never answered", pending));
                break;
            }
            continue;
        }
        let k = if acts.len() == 1 { 0 } else { tape.borrow_mut().draw(acts.len() as u32) as usize };
        clock.tick();
        match acts[k] {
            A::Run(t) => {
                ex.poll_task(t);
            }
            A::Send(c) => {
                let idx = per[c][sent[c]];
                socks[c].st.borrow_mut().deliver(&req_bytes(&sc.reqs[idx]));
                sent[c] += 1;
            }
            A::Gate(g) => {
                gate_open[g] = true;
                gates.open(g);
            }
            A::EmptyBag => {
                sh.bag.borrow_mut().clear();
                *out.stats.entry("bag_emptied").or_insert(0) += 1;
            }
            A::Abort(c) => {
                aborted[c] = true;
                ex.cancel(tasks[c]);
                *out.stats.entry("conn_aborted_mid_handler").or_insert(0) += 1;
            }
        }
    }
    for c in 0..sc.nconns {
        let p = resp::parse_stream(&socks[c].st.borrow().out, &[], false);
        for (j, r) in p.resps.iter().filter(|r| r.complete).enumerate() {
            if let Some(idx) = per[c].get(j) {
                out.bodies.insert(*idx, String::from_utf8_lossy(&r.body).to_string());
                out.statuses.insert(*idx, r.status);
            }
        }
    }
    out.stats.insert("handler_calls", *sh.calls.borrow());
    if sc.flood > 0 {
        out.stats.insert("pool_exceeded_runs", (sc.flood >= 129) as u64);
    }
    sh.bag.borrow_mut().clear();
    out.tape = tape.borrow().record.clone();
    drop(ex);
    drop(handler);
    out
}

pub struct WkRig;

fn gen_target(rng: &mut Rng, ngates: usize) -> String {
    let ids = ["1", "42", "abc", "x%20y", "%41", "a.b", "very-long-segment-000000000000000000000000000000000000000000000"];
    let mut t = match rng.below(8) {
        0 | 1 => format!("/a/item/{}", rng.pick(&ids)),
        2 => format!("/a/x/{}/{}", rng.pick(&ids), rng.pick(&ids)),
        3 | 4 => format!("/b/{}/item/{}", rng.pick(&["t1", "acme", "x%2Fy"]), rng.pick(&ids)),
        5 => "/plain".to_string(),
        6 => format!("/nowhere/{}", rng.pick(&ids)),
        _ => "/a/item".to_string(),
    };
    let mut q: Vec<String> = Vec::new();
    if rng.chance(1, 3) {
        q.push("mw=1".into());
    }
    if rng.chance(1, 4) {
        q.push("keep=1".into());
    }
    if rng.chance(1, 5) {
        q.push("ext=1".into());
    }
    if ngates > 0 && rng.chance(1, 3) {
        q.push(format!("g={}", rng.usize(ngates)));
    }
    if rng.chance(1, 4) {
        q.push(format!("v={}", rng.below(1000)));
    }
    if !q.is_empty() {
        t.push('?');
        t.push_str(&q.join("&"));
    }
    t
}

impl Rig for WkRig {
    type Sc = WkScenario;
    fn property(&self) -> &'static str {
        "C11"
    }
    fn rig_name(&self) -> &'static str {
        "WK"
    }
    fn runs(&self, tier: Tier) -> u64 {
        match tier {
            Tier::Quick => 12_000,
            Tier::Thorough => 4_000_000,
        }
    }
    fn gen(&self, rng: &mut Rng, idx: u64, _tier: Tier) -> WkScenario {
        let nconns = rng.range(1, 4);
        let ngates = rng.range(0, 3);
        let n = rng.range(2, 12);
        let reqs = (0..n)
            .map(|_| WkReq {
                conn: rng.usize(nconns),
                target: gen_target(rng, ngates),
                headers: (0..rng.range(0, 3)).map(|k| (format!("x-h{}", rng.below(4)), format!("v{}-{}", k, rng.below(100)))).collect(),
            })
            .collect();
        WkScenario {
            nconns,
            reqs,
            ngates,
            abort_conn: if rng.chance(1, 5) { Some(rng.usize(nconns)) } else { None },
            flood: if idx % 50 == 7 { 135 } else { 0 },
        }
    }

    fn run(&self, sc: &WkScenario, tape: Tape, narrative: bool) -> RunReport {
        let sc2 = sc.clone();
        let out = run_sim(async move { run_world(sc2, tape).await });
        let mut vs = Vec::new();
        if let Some(s) = &out.stuck {
            vs.push(Violation::new("C11.same-as-fresh", "stuck", s.clone()));
        }
        // reference: each request alone on a fresh service instance, same connection tag
        let mut cache: BTreeMap<(usize, String, String), Option<String>> = BTreeMap::new();
        let mut narr = Vec::new();
        for (i, r) in sc.reqs.iter().enumerate() {
            let got = match out.bodies.get(&i) {
                Some(b) => b,
                None => continue,
            };
            // independent of any reference run: the dump must show exactly what was sent
            if !got.starts_with("DUMP CHANGED") {
                let mut want_h: Vec<String> = vec!["h:host=sim".to_string()];
                let mut by_name: BTreeMap<String, Vec<String>> = BTreeMap::new();
                for (n, v) in &r.headers {
                    by_name.entry(n.clone()).or_default().push(v.clone());
                }
                for (n, vs_) in by_name {
                    for v in vs_ {
                        want_h.push(format!("h:{}={}", n, v));
                    }
                }
                want_h.sort();
                let got_h: Vec<String> = got.lines().filter(|l| l.starts_with("h:")).map(|l| l.to_string()).collect();
                let mut got_sorted = got_h.clone();
                got_sorted.sort();
                if got_sorted != want_h {
                    vs.push(Violation::new("C11.same-as-sent", "headers", format!("request {} ({}): handler saw headers {:?}, the peer sent {:?}", i, r.target, got_sorted, want_h)));
                }
                let want_uri = format!("uri={}", r.target);
                if !got.lines().any(|l| l == want_uri) {
                    vs.push(Violation::new("C11.same-as-sent", "uri", format!("request {} ({}): handler saw {:?}", i, r.target, got.lines().find(|l| l.starts_with("uri=")))));
                }
                let want_conn = format!("conn=Some({})", r.conn);
                if !got.lines().any(|l| l == want_conn) {
                    vs.push(Violation::new("C11.same-as-sent", "conn", format!("request {} on connection {}: handler saw {:?}", i, r.conn, got.lines().find(|l| l.starts_with("conn=")))));
                }
                let mw = r.target.split('?').nth(1).map(|q| q.split('&').any(|kv| kv == "mw=1")).unwrap_or(false);
                let want_ext = if mw { format!("ext_mw=Some({:?})", r.target.split('?').next().unwrap_or("")) } else { "ext_mw=None".to_string() };
                // the path the middleware sees is percent-decoded for unreserved characters only; compare presence
                let got_ext = got.lines().find(|l| l.starts_with("ext_mw=")).unwrap_or("");
                if (got_ext == "ext_mw=None") != (want_ext == "ext_mw=None") {
                    vs.push(Violation::new("C11.same-as-sent", "extensions", format!("request {} ({}): handler saw {}, expected {}", i, r.target, got_ext, want_ext)));
                }
            } else {
                vs.push(Violation::new("C11.same-as-fresh", "changed-during-handler", format!("request {} ({}): {}", i, r.target, got.chars().take(600).collect::<String>())));
            }
            let key = (r.conn, r.target.clone(), format!("{:?}", r.headers));
            let want = cache
                .entry(key)
                .or_insert_with(|| {
                    // strip the gate: the reference handler must not wait
                    let solo = WkScenario { nconns: r.conn + 1, reqs: vec![WkReq { conn: r.conn, target: r.target.clone(), headers: r.headers.clone() }], ngates: sc.ngates, abort_conn: None, flood: 0 };
                    let o = run_sim(async move { run_world(solo, Tape::from_fixed(vec![], 0, true)).await });
                    o.bodies.get(&0).cloned()
                })
                .clone();
            if narrative {
                narr.push(format!("req {} conn {} {} -> {} bytes", i, r.conn, r.target, got.len()));
            }
            match want {
                None => {}
                Some(w) => {
                    if &w != got {
                        // which observable differs?
                        let field = w.lines().zip(got.lines()).find(|(a, b)| a != b).map(|(a, b)| format!("{} vs {}", a, b)).unwrap_or_else(|| "length".into());
                        let key = field.split(|c| c == '=' || c == ':').next().unwrap_or("?").to_string();
                        vs.push(Violation::new(
                            "C11.same-as-fresh",
                            key,
                            format!("request {} ({} on connection {}): what the handler observed differs from a fresh service instance: {}", i, r.target, r.conn, field.chars().take(300).collect::<String>()),
                        ));
                    }
                }
            }
        }
        let mut h: u64 = 0xcbf29ce484222325;
        for b in serde_json::to_string(sc).unwrap_or_default().bytes() {
            h = (h ^ b as u64).wrapping_mul(0x100000001b3);
        }
        for (i, b) in &out.bodies {
            h = (h ^ (*i as u64) ^ ((b.len() as u64) << 16)).wrapping_mul(0x100000001b3);
        }
        h = (h ^ out.steps).wrapping_mul(0x100000001b3);
        let mut stats = out.stats.clone();
        stats.insert("responses_compared", out.bodies.len() as u64);
        RunReport {
            violations: vs,
            trace_hash: h,
            stats,
            nontrivial: out.bodies.len() >= 2 && sc.nconns >= 1,
            states: vec![],
            sim_ms: 0,
            steps: out.steps,
            tape: out.tape.clone(),
            narrative: narr,
        }
    }

    fn shrink(&self, sc: &WkScenario) -> Vec<WkScenario> {
        let mut v = Vec::new();
        for i in 0..sc.reqs.len() {
            let mut c = sc.clone();
            c.reqs.remove(i);
            v.push(c);
        }
        if sc.flood > 0 {
            let mut c = sc.clone();
            c.flood = 0;
            v.push(c);
        }
        if sc.abort_conn.is_some() {
            let mut c = sc.clone();
            c.abort_conn = None;
            v.push(c);
        }
        for i in 0..sc.reqs.len() {
            if !sc.reqs[i].headers.is_empty() {
                let mut c = sc.clone();
                c.reqs[i].headers.clear();
                v.push(c);
            }
        }
        v
    }

    fn nontrivial_rule(&self) -> &'static str {
        "a run is one history of 2–12 requests over 1–4 connections through ONE App service instance under a simulator-chosen interleaving of request delivery, handler gates, dropping of kept HttpRequest clones and a connection abort (every 50th run parks 135 extra requests so that the 128-entry request pool is exceeded); non-trivial = at least two responses compared with their fresh-instance reference; distinct = distinct (scenario, interleaving)"
    }
    fn real_components(&self) -> Vec<&'static str> {
        vec!["actix_web::App / AppInitService (HttpRequest pool), scopes, resources, wrap_fn middleware, app_data resolution", "HttpRequest (Drop recycling, extensions, conn_data, match_info)", "actix_http::HttpService + h1::Dispatcher with on_connect_ext"]
    }
    fn stub_components(&self) -> Vec<&'static str> {
        vec!["sockets (SimSocket)", "peers (one request at a time per connection)", "handlers that dump what they can observe, gates", "wake-driven executor"]
    }
    fn expected_probes(&self) -> Vec<&'static str> {
        vec!["bag_emptied", "conn_aborted_mid_handler", "pool_exceeded_runs", "responses_compared"]
    }
}
