//! Batch driver shared by all rigs: seeded parallel search, violation classification,
//! shrinking, replay files, known-findings matching and evidence output.

use std::{
    collections::{BTreeMap, HashSet},
    panic::{catch_unwind, AssertUnwindSafe},
    sync::{
        atomic::{AtomicU64, Ordering},
        Mutex,
    },
    time::Instant,
};

use serde::{de::DeserializeOwned, Deserialize, Serialize};
use serde_json::{json, Value};

use crate::rng::{mix, Rng, Tape};

pub const DEFAULT_SEED: u64 = 20260922;

#[derive(Clone, Debug, Serialize, Deserialize)]
pub struct Violation {
    pub rule: String,
    pub discr: String,
    pub detail: String,
}

impl Violation {
    pub fn new(rule: &str, discr: impl Into<String>, detail: impl Into<String>) -> Self {
        Violation {
            rule: rule.to_string(),
            discr: discr.into(),
            detail: detail.into(),
        }
    }
    pub fn signature(&self) -> String {
        if self.discr.is_empty() {
            self.rule.clone()
        } else {
            format!("{}|{}", self.rule, self.discr)
        }
    }
}

#[derive(Clone, Debug, Default)]
pub struct RunReport {
    pub violations: Vec<Violation>,
    pub trace_hash: u64,
    pub stats: BTreeMap<&'static str, u64>,
    /// non-trivial by the rig's stated rule
    pub nontrivial: bool,
    /// abstract states visited (hashes), optional
    pub states: Vec<u64>,
    pub sim_ms: u64,
    pub steps: u64,
    pub tape: Vec<u32>,
    pub narrative: Vec<String>,
}

#[derive(Clone, Copy, Debug, PartialEq, Eq)]
pub enum Tier {
    Quick,
    Thorough,
}

pub trait Rig: Sync {
    type Sc: Serialize + DeserializeOwned + Clone + Send;
    fn property(&self) -> &'static str;
    fn rig_name(&self) -> &'static str;
    /// Number of runs for a tier.
    fn runs(&self, tier: Tier) -> u64;
    fn gen(&self, rng: &mut Rng, idx: u64, tier: Tier) -> Self::Sc;
    fn run(&self, sc: &Self::Sc, tape: Tape, narrative: bool) -> RunReport;
    /// One-step simplifications of a scenario (for the shrinker).
    fn shrink(&self, _sc: &Self::Sc) -> Vec<Self::Sc> {
        Vec::new()
    }
    fn nontrivial_rule(&self) -> &'static str;
    fn real_components(&self) -> Vec<&'static str>;
    fn stub_components(&self) -> Vec<&'static str>;
    fn assumptions(&self) -> Vec<&'static str> {
        vec![]
    }
    /// Probes / fault kinds that are expected to fire in a batch (reported as zero if they do not).
    fn expected_probes(&self) -> Vec<&'static str> {
        vec![]
    }
    fn level_text(&self) -> &'static str {
        "exploration"
    }
    fn extra_coverage(&self) -> Value {
        json!({})
    }
}

thread_local! {
    static LAST_PANIC: std::cell::RefCell<Option<String>> = const { std::cell::RefCell::new(None) };
}

pub fn install_panic_hook() {
    std::panic::set_hook(Box::new(|info| {
        let loc = info
            .location()
            .map(|l| format!("{}:{}", l.file(), l.line()))
            .unwrap_or_else(|| "?".into());
        let msg = if let Some(s) = info.payload().downcast_ref::<&str>() {
            s.to_string()
        } else if let Some(s) = info.payload().downcast_ref::<String>() {
            s.clone()
        } else {
            "panic".to_string()
        };
        LAST_PANIC.with(|p| *p.borrow_mut() = Some(format!("{} @ {}", msg, loc)));
        if std::env::var("VERIF_SHOW_PANICS").is_ok() {
            eprintln!("panic: {} @ {}", msg, loc);
        }
    }));
}

fn short_loc(s: &str) -> String {
    // keep "file:line" relative to the repository or crate
    let at = s.rfind(" @ ").map(|i| &s[i + 3..]).unwrap_or(s);
    let at = at.trim_start_matches("/repo/");
    at.to_string()
}

/// Run one scenario, converting a panic into a violation.
pub fn run_guarded<R: Rig>(rig: &R, sc: &R::Sc, tape: Tape, narrative: bool) -> RunReport {
    LAST_PANIC.with(|p| *p.borrow_mut() = None);
    match catch_unwind(AssertUnwindSafe(|| rig.run(sc, tape, narrative))) {
        Ok(mut r) => {
            // a panic inside a task spawned on the runtime is swallowed by the runtime: the hook
            // has still seen it
            if let Some(msg) = LAST_PANIC.with(|p| p.borrow_mut().take()) {
                let loc = short_loc(&msg);
                let harness = loc.starts_with("src/") || loc.contains("/verif/");
                let rule = if harness { "HARNESS.panic".to_string() } else { format!("{}.panic", rig.property()) };
                r.violations.push(Violation::new(&rule, loc, format!("panic inside a spawned task: {}", msg)));
            }
            r
        }
        Err(_) => {
            let msg = LAST_PANIC.with(|p| p.borrow_mut().take()).unwrap_or_else(|| "panic".into());
            let loc = short_loc(&msg);
            let harness = loc.starts_with("src/") || loc.contains("/verif/");
            let rule = if harness {
                "HARNESS.panic".to_string()
            } else {
                format!("{}.panic", rig.property())
            };
            RunReport {
                violations: vec![Violation::new(&rule, loc, msg)],
                ..Default::default()
            }
        }
    }
}

#[derive(Clone, Debug, Serialize, Deserialize)]
pub struct KnownFinding {
    pub property: String,
    pub signature: String,
    pub what_fails: String,
    pub status: String,
    #[serde(default)]
    pub replay: Option<String>,
}

/// `*` in a known-finding signature matches any run of characters.
pub fn sig_matches(pattern: &str, sig: &str) -> bool {
    if !pattern.contains('*') {
        return pattern == sig;
    }
    let parts: Vec<&str> = pattern.split('*').collect();
    let mut pos = 0usize;
    for (i, part) in parts.iter().enumerate() {
        if i == 0 {
            if !sig.starts_with(part) {
                return false;
            }
            pos = part.len();
        } else if i == parts.len() - 1 {
            return sig.len() >= pos + part.len() && sig[pos..].ends_with(part);
        } else {
            match sig[pos..].find(part) {
                Some(k) => pos += k + part.len(),
                None => return false,
            }
        }
    }
    true
}

pub fn load_known() -> Vec<KnownFinding> {
    let p = verif_dir().join("known_findings.json");
    match std::fs::read_to_string(&p) {
        Ok(s) => serde_json::from_str(&s).unwrap_or_else(|e| {
            eprintln!("HARNESS ERROR: cannot parse {}: {}", p.display(), e);
            std::process::exit(2);
        }),
        Err(_) => Vec::new(),
    }
}

pub fn verif_dir() -> std::path::PathBuf {
    std::env::var("VERIF_DIR").map(Into::into).unwrap_or_else(|_| "/verif".into())
}

#[derive(Serialize, Deserialize)]
pub struct ReplayFile {
    pub property: String,
    pub rig: String,
    pub batch_seed: u64,
    pub run_index: u64,
    pub signature: String,
    pub rule: String,
    pub detail: String,
    pub trace_hash: u64,
    pub tape: Vec<u32>,
    pub scenario: Value,
    pub narrative: Vec<String>,
}

struct Found<Sc> {
    idx: u64,
    sc: Sc,
    tape: Vec<u32>,
    v: Violation,
}

pub struct BatchResult {
    pub exit: i32,
}

pub struct BatchOpts {
    pub seed: u64,
    pub tier: Tier,
    pub jobs: usize,
    pub runs_override: Option<u64>,
    pub write_evidence: bool,
    pub hashes_out: Option<String>,
}

pub fn run_batch<R: Rig>(rig: &R, opts: &BatchOpts) -> BatchResult {
    let prop = rig.property();
    let t0 = Instant::now();
    let n = opts.runs_override.unwrap_or_else(|| rig.runs(opts.tier));
    let next = AtomicU64::new(0);
    let agg = Mutex::new(Agg::<R::Sc>::default());
    let trace_runs = std::env::var("VERIF_TRACE_RUNS").is_ok();
    let wall_cap: u64 = std::env::var("VERIF_WALL_SECS").ok().and_then(|s| s.parse().ok()).unwrap_or(match opts.tier {
        Tier::Quick => 900,
        Tier::Thorough => 6 * 3600,
    });
    let stopped_early = std::sync::atomic::AtomicBool::new(false);
    println!("[{}] rig={} tier={:?} seed={} runs={} jobs={}", prop, rig.rig_name(), opts.tier, opts.seed, n, opts.jobs);

    std::thread::scope(|s| {
        for _ in 0..opts.jobs {
            s.spawn(|| {
                let mut local = Agg::<R::Sc>::default();
                loop {
                    let i = next.fetch_add(1, Ordering::Relaxed);
                    if i >= n {
                        break;
                    }
                    // safety net against a tree on which runs have become pathologically slow:
                    // stop handing out new runs; what was found so far is reported as usual
                    if t0.elapsed().as_secs() > wall_cap {
                        if !stopped_early.swap(true, Ordering::Relaxed) {
                            println!("[{}] wall budget of {} s reached after about {} runs: no further runs are started", prop, wall_cap, i);
                        }
                        break;
                    }
                    let seed_i = mix(opts.seed, prop, i);
                    let mut rng = Rng::new(seed_i);
                    let sc = rig.gen(&mut rng, i, opts.tier);
                    let tape = Tape::from_seed(rng.next_u64());
                    if trace_runs {
                        eprintln!("run {}", i);
                    }
                    let live_before = crate::alloc::live();
                    let rep = run_guarded(rig, &sc, tape, false);
                    if trace_runs {
                        eprintln!("run {} live-heap delta {} bytes", i, crate::alloc::live() as i64 - live_before as i64);
                    }
                    local.evals += 1;
                    local.sim_ms += rep.sim_ms;
                    local.steps += rep.steps;
                    local.hashes.insert(rep.trace_hash);
                    if opts.hashes_out.is_some() {
                        local.hash_list.push((i, rep.trace_hash));
                    }
                    if rep.nontrivial {
                        local.nontrivial.insert(rep.trace_hash);
                    }
                    for st in &rep.states {
                        local.states.insert(*st);
                    }
                    for (k, v) in &rep.stats {
                        *local.stats.entry(k).or_insert(0) += v;
                    }
                    if local.samples.len() < 2 && (rep.nontrivial || i < 2) {
                        local.samples.push((i, serde_json::to_value(&sc).unwrap_or(Value::Null)));
                    }
                    for v in rep.violations {
                        let sig = v.signature();
                        *local.viol_counts.entry(sig.clone()).or_insert(0) += 1;
                        let e = local.found.entry(sig).or_insert_with(Vec::new);
                        if e.len() < 3 {
                            e.push(Found {
                                idx: i,
                                sc: sc.clone(),
                                tape: rep.tape.clone(),
                                v,
                            });
                        }
                    }
                }
                agg.lock().unwrap().merge(local);
            });
        }
    });
    let mut agg = agg.into_inner().unwrap();
    let search_s = t0.elapsed().as_secs_f64();

    if let Some(path) = &opts.hashes_out {
        agg.hash_list.sort();
        let mut s = String::new();
        for (i, h) in &agg.hash_list {
            s.push_str(&format!("{} {:016x}\n", i, h));
        }
        std::fs::write(path, s).expect("write hashes");
    }

    // classify
    let known = load_known();
    let mut exit = 0;
    let mut violations_reported = 0;
    let mut known_hit: Vec<String> = Vec::new();
    let mut known_counts: BTreeMap<usize, (u64, u64)> = BTreeMap::new();
    let mut sigs: Vec<String> = agg.found.keys().cloned().collect();
    sigs.sort();
    let replay_dir = verif_dir().join("replays");
    let _ = std::fs::create_dir_all(&replay_dir);
    let mut shrunk = 0;
    for sig in sigs {
        let mut founds = agg.found.remove(&sig).unwrap();
        founds.sort_by_key(|f| f.idx);
        let f = &founds[0];
        let count = agg.viol_counts.get(&sig).copied().unwrap_or(0);
        if f.v.rule.starts_with("HARNESS.") {
            println!("HARNESS ERROR: {} ({}) run_index={}", sig, f.v.detail, f.idx);
            exit = 2;
            continue;
        }
        let k = known.iter().position(|k| k.property == prop && sig_matches(&k.signature, &sig) && k.status == "known");
        if let Some(ki) = k {
            let e = known_counts.entry(ki).or_insert((0u64, 0u64));
            e.0 += count;
            e.1 += 1;
            known_hit.push(sig.clone());
            continue;
        }
        // shrinking is bounded: the first few signatures get the full treatment
        shrunk += 1;
        let (sc_min, tape_min, v_min, hash, narrative) = shrink(rig, &f.sc, &f.tape, &f.v, if shrunk <= 6 { 400 } else { 0 });
        let fname = format!("{}-{}-{}.json", prop, f.idx, sanitize(&sig));
        let path = replay_dir.join(&fname);
        let rf = ReplayFile {
            property: prop.to_string(),
            rig: rig.rig_name().to_string(),
            batch_seed: opts.seed,
            run_index: f.idx,
            signature: sig.clone(),
            rule: v_min.rule.clone(),
            detail: v_min.detail.clone(),
            trace_hash: hash,
            tape: tape_min,
            scenario: serde_json::to_value(&sc_min).unwrap(),
            narrative,
        };
        std::fs::write(&path, serde_json::to_string_pretty(&rf).unwrap()).expect("write replay");
        println!("VIOLATION property={} replay={}", prop, path.display());
        println!("  signature: {}  ({} of {} runs; first at run_index {})", sig, count, n, f.idx);
        println!("  detail: {}", truncate(&v_min.detail, 600));
        violations_reported += 1;
        if exit == 0 {
            exit = 1;
        }
    }

    for (ki, (count, nsig)) in &known_counts {
        let k = &known[*ki];
        println!("KNOWN-FINDING: property={} {} [entry {} ; {} distinct signature(s) ; {} of {} runs]", prop, k.what_fails, k.signature, nsig, count, n);
    }
    let wall = t0.elapsed().as_secs_f64();
    if opts.write_evidence {
        let mut faults = serde_json::Map::new();
        for (k, v) in &agg.stats {
            faults.insert((*k).to_string(), json!(v));
        }
        let mut zero: Vec<&str> = Vec::new();
        for p in rig.expected_probes() {
            if agg.stats.get(p).copied().unwrap_or(0) == 0 {
                zero.push(p);
            }
        }
        let samples: Vec<Value> = agg
            .samples
            .iter()
            .take(3)
            .map(|(i, v)| {
                // keep the evidence file small: a long scenario is summarised (it can always be
                // regenerated from the batch seed and the run index)
                let text = serde_json::to_string(v).unwrap_or_default();
                if text.len() > 6000 {
                    let head: String = text.chars().take(1500).collect();
                    json!({"run_index": i, "seed": mix(opts.seed, prop, *i), "scenario_truncated": true, "scenario_chars": text.len(), "scenario_head": head})
                } else {
                    json!({"run_index": i, "seed": mix(opts.seed, prop, *i), "scenario": v})
                }
            })
            .collect();
        let mut coverage = json!({
            "evaluations": agg.evals,
            "distinct_nontrivial": agg.nontrivial.len(),
            "distinct_trace_hashes": agg.hashes.len(),
            "distinct_abstract_states": agg.states.len(),
            "rule": rig.nontrivial_rule(),
            "samples": samples,
            "simulated_time_s": agg.sim_ms as f64 / 1000.0,
            "simulator_steps": agg.steps,
            "runs_per_hour": if search_s > 0.0 { (agg.evals as f64 / search_s * 3600.0) as u64 } else { 0 },
            "seeds_per_hour": if search_s > 0.0 { (agg.evals as f64 / search_s * 3600.0) as u64 } else { 0 },
            "faults_and_probes_fired": Value::Object(faults),
            "expected_probes_at_zero": zero,
            "real_components": rig.real_components(),
            "stub_components": rig.stub_components(),
            "known_findings_hit": known_hit,
            "exhaustive": false,
            "jobs": opts.jobs,
        });
        if let (Value::Object(c), Value::Object(x)) = (&mut coverage, rig.extra_coverage()) {
            for (k, v) in x {
                c.insert(k, v);
            }
        }
        let ev = json!({
            "property_id": prop,
            "tier": match opts.tier { Tier::Quick => "quick", Tier::Thorough => "thorough" },
            "seed": opts.seed,
            "level": "exploration",
            "coverage": coverage,
            "assumptions": rig.assumptions(),
            "wall_s": wall,
            "violations": violations_reported,
        });
        let dir = verif_dir().join("evidence");
        let _ = std::fs::create_dir_all(&dir);
        std::fs::write(dir.join(format!("{}.json", prop)), serde_json::to_string_pretty(&ev).unwrap()).expect("write evidence");
    }
    println!(
        "[{}] done: {} runs, {} distinct traces, {} distinct non-trivial, {:.1}s simulated, {:.1}s wall, violations={}, known={}",
        prop,
        agg.evals,
        agg.hashes.len(),
        agg.nontrivial.len(),
        agg.sim_ms as f64 / 1000.0,
        wall,
        violations_reported,
        known_hit.len()
    );
    BatchResult { exit }
}

fn truncate(s: &str, n: usize) -> String {
    if s.len() <= n {
        s.to_string()
    } else {
        let mut e = n;
        while !s.is_char_boundary(e) {
            e -= 1;
        }
        format!("{}…", &s[..e])
    }
}

fn sanitize(s: &str) -> String {
    let mut o: String = s
        .chars()
        .map(|c| if c.is_ascii_alphanumeric() || c == '.' || c == '-' { c } else { '_' })
        .collect();
    o.truncate(80);
    o
}

struct Agg<Sc> {
    evals: u64,
    sim_ms: u64,
    steps: u64,
    hashes: HashSet<u64>,
    nontrivial: HashSet<u64>,
    states: HashSet<u64>,
    stats: BTreeMap<&'static str, u64>,
    samples: Vec<(u64, Value)>,
    found: BTreeMap<String, Vec<Found<Sc>>>,
    viol_counts: BTreeMap<String, u64>,
    hash_list: Vec<(u64, u64)>,
}

impl<Sc> Default for Agg<Sc> {
    fn default() -> Self {
        Agg {
            evals: 0,
            sim_ms: 0,
            steps: 0,
            hashes: HashSet::new(),
            nontrivial: HashSet::new(),
            states: HashSet::new(),
            stats: BTreeMap::new(),
            samples: Vec::new(),
            found: BTreeMap::new(),
            viol_counts: BTreeMap::new(),
            hash_list: Vec::new(),
        }
    }
}

impl<Sc> Agg<Sc> {
    fn merge(&mut self, o: Agg<Sc>) {
        self.evals += o.evals;
        self.sim_ms += o.sim_ms;
        self.steps += o.steps;
        self.hashes.extend(o.hashes);
        self.nontrivial.extend(o.nontrivial);
        self.states.extend(o.states);
        for (k, v) in o.stats {
            *self.stats.entry(k).or_insert(0) += v;
        }
        self.samples.extend(o.samples);
        self.samples.sort_by_key(|s| s.0);
        self.samples.truncate(4);
        for (k, v) in o.viol_counts {
            *self.viol_counts.entry(k).or_insert(0) += v;
        }
        for (k, v) in o.found {
            let e = self.found.entry(k).or_insert_with(Vec::new);
            e.extend(v);
            e.sort_by_key(|f| f.idx);
            e.truncate(3);
        }
        self.hash_list.extend(o.hash_list);
    }
}

/// Greedy delta-debugging: keep a simplification only if the same signature reproduces.
fn shrink<R: Rig>(rig: &R, sc: &R::Sc, tape: &[u32], v: &Violation, budget0: u32) -> (R::Sc, Vec<u32>, Violation, u64, Vec<String>) {
    let sig = v.signature();
    let t0 = Instant::now();
    let mut cur = sc.clone();
    let mut cur_tape = tape.to_vec();
    let same = |rep: &RunReport| rep.violations.iter().find(|x| x.signature() == sig).cloned();
    // first make sure the recorded tape reproduces on its own
    let rep = run_guarded(rig, &cur, Tape::from_fixed(cur_tape.clone(), 0, true), false);
    if same(&rep).is_none() {
        // not reproducible from the recording: report as is (this is a harness defect)
        println!("HARNESS WARNING: violation {} did not reproduce from its recorded tape", sig);
        return (cur, cur_tape, v.clone(), 0, vec![]);
    }
    let mut budget = budget0;
    'outer: loop {
        if t0.elapsed().as_secs() > 20 || budget == 0 {
            break;
        }
        // simplest schedule first
        for cand_tape in [Vec::new(), cur_tape[..cur_tape.len() / 2].to_vec()] {
            if cand_tape.len() >= cur_tape.len() || budget == 0 {
                continue;
            }
            budget -= 1;
            let rep = run_guarded(rig, &cur, Tape::from_fixed(cand_tape, 0, true), false);
            if same(&rep).is_some() {
                cur_tape = rep.tape.clone();
                // the recording of an all-zero run is all zeros: keep only its length
                continue 'outer;
            }
        }
        for cand in rig.shrink(&cur) {
            if budget == 0 {
                break 'outer;
            }
            budget -= 1;
            let rep = run_guarded(rig, &cand, Tape::from_fixed(cur_tape.clone(), 0, true), false);
            if same(&rep).is_some() {
                cur = cand;
                cur_tape = rep.tape.clone();
                continue 'outer;
            }
        }
        break;
    }
    let rep = run_guarded(rig, &cur, Tape::from_fixed(cur_tape.clone(), 0, true), true);
    let vmin = same(&rep).unwrap_or_else(|| v.clone());
    (cur, rep.tape.clone(), vmin, rep.trace_hash, rep.narrative)
}

pub fn replay<R: Rig>(rig: &R, path: &str) -> i32 {
    let s = match std::fs::read_to_string(path) {
        Ok(s) => s,
        Err(e) => {
            println!("HARNESS ERROR: cannot read {}: {}", path, e);
            return 2;
        }
    };
    let rf: ReplayFile = match serde_json::from_str(&s) {
        Ok(r) => r,
        Err(e) => {
            println!("HARNESS ERROR: cannot parse {}: {}", path, e);
            return 2;
        }
    };
    let sc: R::Sc = match serde_json::from_value(rf.scenario.clone()) {
        Ok(s) => s,
        Err(e) => {
            println!("HARNESS ERROR: scenario in {} does not match rig {}: {}", path, rig.rig_name(), e);
            return 2;
        }
    };
    let rep = run_guarded(rig, &sc, Tape::from_fixed(rf.tape.clone(), 0, true), true);
    for l in &rep.narrative {
        println!("  {}", l);
    }
    for v in &rep.violations {
        println!("  violation in this run: {} — {}", v.signature(), truncate(&v.detail, 300));
    }
    let hit = rep.violations.iter().find(|v| v.signature() == rf.signature);
    match hit {
        Some(v) => {
            println!("replayed: signature {} reproduced; trace hash {:016x} ({})", rf.signature, rep.trace_hash, if rep.trace_hash == rf.trace_hash { "identical to the recorded run" } else { "DIFFERS from the recorded run" });
            println!("  detail: {}", truncate(&v.detail, 2000));
            let known = load_known();
            if let Some(k) = known.iter().find(|k| k.property == rf.property && sig_matches(&k.signature, &rf.signature) && k.status == "known") {
                println!("KNOWN-FINDING: property={} {}", rf.property, k.what_fails);
                0
            } else {
                println!("VIOLATION property={} replay={}", rf.property, path);
                1
            }
        }
        None => {
            println!("replayed: signature {} did NOT reproduce (violations now: {:?})", rf.signature, rep.violations.iter().map(|v| v.signature()).collect::<Vec<_>>());
            0
        }
    }
}
