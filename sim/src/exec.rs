//! M1 executor: the simulator owns the top-level futures and decides who is polled next.
//!
//! A task is polled only when its `woken` bit is set (or when the scheduler explicitly chooses a
//! logged spurious poll). Idle waits go through tokio's paused clock so virtual time jumps to the
//! next timer.

use std::{
    future::Future,
    pin::Pin,
    sync::{
        atomic::{AtomicBool, AtomicU64, Ordering},
        Arc, Mutex,
    },
    task::{Context, Poll, Wake, Waker},
    time::Duration,
};

pub struct MainWaker {
    w: Mutex<Option<Waker>>,
}

impl MainWaker {
    fn notify(&self) {
        if let Some(w) = self.w.lock().unwrap().take() {
            w.wake();
        }
    }
    fn register(&self, w: &Waker) {
        let mut g = self.w.lock().unwrap();
        match &*g {
            Some(old) if old.will_wake(w) => {}
            _ => *g = Some(w.clone()),
        }
    }
}

pub struct TaskFlag {
    pub woken: AtomicBool,
    pub wakes: AtomicU64,
    main: Arc<MainWaker>,
}

impl TaskFlag {
    pub fn wake_count(&self) -> u64 {
        self.wakes.load(Ordering::SeqCst)
    }
    pub fn is_woken(&self) -> bool {
        self.woken.load(Ordering::SeqCst)
    }
}

impl Wake for TaskFlag {
    fn wake(self: Arc<Self>) {
        self.wake_by_ref();
    }
    fn wake_by_ref(self: &Arc<Self>) {
        self.woken.store(true, Ordering::SeqCst);
        self.wakes.fetch_add(1, Ordering::SeqCst);
        self.main.notify();
    }
}

pub type TaskId = usize;

pub struct Task {
    pub name: String,
    fut: Option<Pin<Box<dyn Future<Output = ()>>>>,
    pub flag: Arc<TaskFlag>,
    pub polls: u64,
    pub done: bool,
    /// consecutive polls that were triggered by a wake issued *during* the previous poll
    pub self_wake_streak: u64,
    pub max_self_wake_streak: u64,
}

pub struct Exec {
    pub tasks: Vec<Task>,
    main: Arc<MainWaker>,
    start: tokio::time::Instant,
}

#[derive(Debug, PartialEq, Eq, Clone, Copy)]
pub enum Idle {
    Woken,
    Deadline,
}

impl Exec {
    pub fn new() -> Self {
        Exec {
            tasks: Vec::new(),
            main: Arc::new(MainWaker {
                w: Mutex::new(None),
            }),
            start: tokio::time::Instant::now(),
        }
    }

    pub fn spawn<F: Future<Output = ()> + 'static>(&mut self, name: &str, fut: F) -> TaskId {
        let flag = Arc::new(TaskFlag {
            woken: AtomicBool::new(true),
            wakes: AtomicU64::new(0),
            main: self.main.clone(),
        });
        self.tasks.push(Task {
            name: name.to_string(),
            fut: Some(Box::pin(fut)),
            flag,
            polls: 0,
            done: false,
            self_wake_streak: 0,
            max_self_wake_streak: 0,
        });
        self.tasks.len() - 1
    }

    /// A waker that is not attached to any task (used for probes).
    pub fn detached_flag(&self) -> Arc<TaskFlag> {
        Arc::new(TaskFlag {
            woken: AtomicBool::new(false),
            wakes: AtomicU64::new(0),
            main: self.main.clone(),
        })
    }

    pub fn now(&self) -> Duration {
        tokio::time::Instant::now() - self.start
    }

    pub fn now_ms(&self) -> u64 {
        self.now().as_millis() as u64
    }

    pub fn start_instant(&self) -> tokio::time::Instant {
        self.start
    }

    pub fn runnable(&self) -> Vec<TaskId> {
        self.tasks
            .iter()
            .enumerate()
            .filter(|(_, t)| !t.done && t.flag.is_woken())
            .map(|(i, _)| i)
            .collect()
    }

    pub fn unfinished(&self) -> Vec<TaskId> {
        self.tasks
            .iter()
            .enumerate()
            .filter(|(_, t)| !t.done)
            .map(|(i, _)| i)
            .collect()
    }

    pub fn any_runnable(&self) -> bool {
        self.tasks.iter().any(|t| !t.done && t.flag.is_woken())
    }

    /// Poll a task once (clearing its woken bit first). Returns true if it completed.
    pub fn poll_task(&mut self, id: TaskId) -> bool {
        let t = &mut self.tasks[id];
        if t.done {
            return true;
        }
        t.flag.woken.store(false, Ordering::SeqCst);
        let waker = Waker::from(t.flag.clone());
        let mut cx = Context::from_waker(&waker);
        t.polls += 1;
        let mut fut = t.fut.take().expect("task future present");
        let r = fut.as_mut().poll(&mut cx);
        match r {
            Poll::Ready(()) => {
                t.done = true;
                drop(fut);
                true
            }
            Poll::Pending => {
                if t.flag.is_woken() {
                    t.self_wake_streak += 1;
                    t.max_self_wake_streak = t.max_self_wake_streak.max(t.self_wake_streak);
                } else {
                    t.self_wake_streak = 0;
                }
                t.fut = Some(fut);
                false
            }
        }
    }

    /// Drop a task's future without completing it (connection aborted by the "runtime").
    pub fn cancel(&mut self, id: TaskId) {
        let t = &mut self.tasks[id];
        t.fut = None;
        t.done = true;
    }

    /// Wait (on the paused clock) until some task is woken or the virtual deadline is reached.
    pub async fn idle_until(&self, deadline: Duration) -> Idle {
        if self.any_runnable() {
            return Idle::Woken;
        }
        let sleep = tokio::time::sleep_until(self.start + deadline);
        tokio::pin!(sleep);
        std::future::poll_fn(|cx| {
            self.main.register(cx.waker());
            if self.any_runnable() {
                return Poll::Ready(Idle::Woken);
            }
            if sleep.as_mut().poll(cx).is_ready() {
                return Poll::Ready(Idle::Deadline);
            }
            Poll::Pending
        })
        .await
    }
}

/// Build the single-threaded paused-clock runtime and run `f` inside a LocalSet.
pub fn run_sim<F, R>(f: F) -> R
where
    F: Future<Output = R>,
{
    let rt = tokio::runtime::Builder::new_current_thread()
        .enable_time()
        .start_paused(true)
        .build()
        .expect("runtime");
    let local = tokio::task::LocalSet::new();
    let r = local.block_on(&rt, f);
    drop(local);
    drop(rt);
    r
}

/// Gates: named one-shot latches the scripted handlers and bodies wait on.
pub mod gate {
    use std::{
        cell::RefCell,
        future::Future,
        pin::Pin,
        rc::Rc,
        task::{Context, Poll, Waker},
    };

    #[derive(Default)]
    struct G {
        open: bool,
        waiters: Vec<Waker>,
    }

    #[derive(Clone, Default)]
    pub struct Gates {
        inner: Rc<RefCell<Vec<G>>>,
    }

    impl Gates {
        pub fn new(n: usize) -> Self {
            let mut v = Vec::new();
            v.resize_with(n, G::default);
            Gates {
                inner: Rc::new(RefCell::new(v)),
            }
        }
        pub fn open(&self, g: usize) {
            let ws = {
                let mut v = self.inner.borrow_mut();
                if g >= v.len() {
                    return;
                }
                v[g].open = true;
                std::mem::take(&mut v[g].waiters)
            };
            for w in ws {
                w.wake();
            }
        }
        pub fn is_open(&self, g: usize) -> bool {
            self.inner.borrow().get(g).map(|g| g.open).unwrap_or(true)
        }
        pub fn poll_gate(&self, g: usize, cx: &mut Context<'_>) -> Poll<()> {
            let mut v = self.inner.borrow_mut();
            if g >= v.len() || v[g].open {
                return Poll::Ready(());
            }
            if !v[g].waiters.iter().any(|w| w.will_wake(cx.waker())) {
                v[g].waiters.push(cx.waker().clone());
            }
            Poll::Pending
        }
        pub fn wait(&self, g: usize) -> GateFut {
            GateFut {
                gates: self.clone(),
                g,
            }
        }
    }

    pub struct GateFut {
        gates: Gates,
        g: usize,
    }

    impl Future for GateFut {
        type Output = ();
        fn poll(self: Pin<&mut Self>, cx: &mut Context<'_>) -> Poll<()> {
            self.gates.poll_gate(self.g, cx)
        }
    }
}
