//! Rig EX (C12): the real body extractors (`Bytes`, `String`, `Json`, `Form`,
//! `Payload::to_bytes_limited`) over a scripted, counting payload stream, polled by the
//! wake-driven executor on the paused clock.

use std::{
    cell::RefCell,
    collections::VecDeque,
    io::Write,
    pin::Pin,
    rc::Rc,
    task::{Context, Poll, Waker},
    time::Duration,
};

use actix_http::error::PayloadError;
use actix_web::{
    dev,
    test::TestRequest,
    web::{self, Form, FormConfig, Json, JsonConfig, PayloadConfig},
    FromRequest,
};
use bytes::Bytes;
use futures_core::Stream;
use serde::{Deserialize, Serialize};

use crate::{
    batch::{Rig, RunReport, Tier, Violation},
    exec::{run_sim, Exec, Idle},
    rng::{Rng, Tape},
};

#[derive(Clone, Copy, Debug, Serialize, Deserialize, PartialEq, Eq)]
pub enum Extractor {
    Bytes,
    String,
    Json,
    Form,
    ToBytesLimited,
    /// `MultipartForm<T>` with one in-memory `form::bytes::Bytes` field; `limit` is both the
    /// total and the memory limit of `MultipartFormConfig`
    MpBytes,
    /// the same with a `form::text::Text<String>` field
    MpText,
}

const MP_BOUNDARY: &str = "XsimBoundaryX";

fn is_mp(e: Extractor) -> bool {
    matches!(e, Extractor::MpBytes | Extractor::MpText)
}

/// multipart/form-data envelope around one field named `f`
fn mp_envelope(content: &[u8]) -> Vec<u8> {
    let mut w = format!("--{}\r\ncontent-disposition: form-data; name=\"f\"\r\n\r\n", MP_BOUNDARY).into_bytes();
    w.extend_from_slice(content);
    w.extend_from_slice(format!("\r\n--{}--\r\n", MP_BOUNDARY).as_bytes());
    w
}

#[derive(actix_multipart::form::MultipartForm)]
struct MpFormBytes {
    f: actix_multipart::form::bytes::Bytes,
}

#[derive(actix_multipart::form::MultipartForm)]
struct MpFormText {
    f: actix_multipart::form::text::Text<String>,
}

#[derive(Clone, Copy, Debug, Serialize, Deserialize, PartialEq, Eq)]
pub enum Coding {
    Identity,
    Gzip,
    Deflate,
    Br,
    Zstd,
}

#[derive(Clone, Copy, Debug, Serialize, Deserialize, PartialEq, Eq)]
pub enum DeclaredLen {
    Absent,
    Honest,
    Smaller,
    Larger,
}

#[derive(Clone, Debug, Serialize, Deserialize)]
pub struct ExScenario {
    pub extractor: Extractor,
    pub coding: Coding,
    pub limit: usize,
    /// decoded body length
    pub len: usize,
    /// highly compressible content (false: pseudo-random alphanumerics)
    pub compressible: bool,
    pub declared: DeclaredLen,
    /// chunk sizes of the wire body (cycled); empty = one chunk
    pub chunk_sizes: Vec<usize>,
    /// Pending returns before chunk k (cycled)
    pub pendings: Vec<u8>,
    /// payload error injected before chunk k
    pub error_at_chunk: Option<usize>,
    /// the wire body is cut after this many bytes (compressed stream truncated)
    pub truncate_wire: Option<usize>,
}

fn decoded_body(sc: &ExScenario) -> Vec<u8> {
    let n = sc.len;
    let filler = |n: usize| -> Vec<u8> {
        if sc.compressible {
            vec![b'a'; n]
        } else {
            let mut x = 0x9E37_79B9u64 ^ (n as u64) << 3;
            (0..n)
                .map(|_| {
                    let r = crate::rng::splitmix(&mut x);
                    b"abcdefghijklmnopqrstuvwxyzABCDEFGHIJKLMNOPQRSTUVWXYZ0123456789"[(r % 62) as usize]
                })
                .collect()
        }
    };
    match sc.extractor {
        Extractor::Json => {
            // a JSON string value of total length n (n >= 2)
            if n < 2 {
                return b"0".iter().cycle().take(n.max(1)).copied().collect();
            }
            let mut v = vec![b'"'];
            v.extend(filler(n - 2));
            v.push(b'"');
            v
        }
        Extractor::Form => {
            if n < 2 {
                return b"k".iter().cycle().take(n).copied().collect();
            }
            let mut v = b"k=".to_vec();
            v.extend(filler(n - 2));
            v
        }
        _ => filler(n),
    }
}

fn encode(coding: Coding, data: &[u8]) -> Vec<u8> {
    match coding {
        Coding::Identity => data.to_vec(),
        Coding::Gzip => {
            let mut e = flate2::write::GzEncoder::new(Vec::new(), flate2::Compression::fast());
            e.write_all(data).unwrap();
            e.finish().unwrap()
        }
        Coding::Deflate => {
            let mut e = flate2::write::ZlibEncoder::new(Vec::new(), flate2::Compression::fast());
            e.write_all(data).unwrap();
            e.finish().unwrap()
        }
        Coding::Br => {
            let mut out = Vec::new();
            {
                let mut w = brotli::CompressorWriter::new(&mut out, 4096, 1, 20);
                w.write_all(data).unwrap();
            }
            out
        }
        Coding::Zstd => zstd::encode_all(data, 1).unwrap(),
    }
}

struct StreamState {
    chunks: VecDeque<Bytes>,
    pendings: Vec<u8>,
    k: usize,
    error_at: Option<usize>,
    waker: Option<Waker>,
    pulled_bytes: usize,
    pulled_chunks: usize,
    ended: bool,
    errored: bool,
    pending_fired: u64,
    /// chunks pulled after the decoded total first exceeded the limit (diagnostic)
    polls_after_end: u64,
}

struct ScriptStream(Rc<RefCell<StreamState>>);

impl Stream for ScriptStream {
    type Item = Result<Bytes, PayloadError>;
    fn poll_next(self: Pin<&mut Self>, cx: &mut Context<'_>) -> Poll<Option<Self::Item>> {
        let mut st = self.0.borrow_mut();
        if st.ended || st.errored {
            st.polls_after_end += 1;
            return Poll::Ready(None);
        }
        if let Some(e) = st.error_at {
            if st.k >= e {
                st.errored = true;
                return Poll::Ready(Some(Err(PayloadError::Incomplete(None))));
            }
        }
        if st.chunks.is_empty() {
            st.ended = true;
            return Poll::Ready(None);
        }
        let k = st.k;
        let n = st.pendings.len().max(1);
        if let Some(p) = st.pendings.get_mut(k % n) {
            if *p > 0 {
                *p -= 1;
                st.waker = Some(cx.waker().clone());
                st.pending_fired += 1;
                return Poll::Pending;
            }
        }
        let c = st.chunks.pop_front().unwrap();
        st.k += 1;
        st.pulled_bytes += c.len();
        st.pulled_chunks += 1;
        Poll::Ready(Some(Ok(c)))
    }
}

#[derive(Clone, Debug, PartialEq, Eq)]
enum Outcome {
    Ok(Vec<u8>),
    Overflow,
    OtherErr(String),
    Hang(String),
}

fn class(o: &Outcome) -> &'static str {
    match o {
        Outcome::Ok(_) => "ok",
        Outcome::Overflow => "overflow",
        Outcome::OtherErr(_) => "error",
        Outcome::Hang(_) => "hang",
    }
}

struct OneRun {
    outcome: Outcome,
    heap_peak_delta: usize,
    pulled_bytes: usize,
    pulled_chunks: usize,
    pending_fired: u64,
    max_chunk: usize,
    wire_len: usize,
}

fn run_once(sc: &ExScenario, trivial_schedule: bool) -> OneRun {
    let decoded = decoded_body(sc);
    let mut wire = if is_mp(sc.extractor) { mp_envelope(&decoded) } else { encode(sc.coding, &decoded) };
    if let Some(t) = sc.truncate_wire {
        wire.truncate(t.min(wire.len()));
    }
    let wire_len = wire.len();
    let wire = Bytes::from(wire);
    let mut chunks = VecDeque::new();
    if trivial_schedule || sc.chunk_sizes.is_empty() {
        if !wire.is_empty() {
            chunks.push_back(wire.clone());
        }
    } else {
        let mut off = 0;
        let mut i = 0;
        while off < wire.len() {
            let n = sc.chunk_sizes[i % sc.chunk_sizes.len()].max(1).min(wire.len() - off);
            chunks.push_back(wire.slice(off..off + n));
            off += n;
            i += 1;
        }
    }
    let max_chunk = chunks.iter().map(|c| c.len()).max().unwrap_or(0);
    let st = Rc::new(RefCell::new(StreamState {
        chunks,
        pendings: if trivial_schedule { vec![] } else { sc.pendings.clone() },
        k: 0,
        error_at: sc.error_at_chunk,
        waker: None,
        pulled_bytes: 0,
        pulled_chunks: 0,
        ended: false,
        errored: false,
        pending_fired: 0,
        polls_after_end: 0,
    }));
    let sc2 = sc.clone();
    let st2 = st.clone();
    let (outcome, peak) = run_sim(async move {
        let sc = sc2;
        let mut tr = TestRequest::post();
        match sc.coding {
            Coding::Identity => {}
            Coding::Gzip => tr = tr.insert_header(("content-encoding", "gzip")),
            Coding::Deflate => tr = tr.insert_header(("content-encoding", "deflate")),
            Coding::Br => tr = tr.insert_header(("content-encoding", "br")),
            Coding::Zstd => tr = tr.insert_header(("content-encoding", "zstd")),
        }
        match sc.declared {
            DeclaredLen::Absent => {}
            DeclaredLen::Honest => tr = tr.insert_header(("content-length", wire_len.to_string())),
            DeclaredLen::Smaller => tr = tr.insert_header(("content-length", (wire_len / 2).to_string())),
            DeclaredLen::Larger => tr = tr.insert_header(("content-length", (wire_len * 2 + 10).to_string())),
        }
        match sc.extractor {
            Extractor::Json => tr = tr.insert_header(("content-type", "application/json")).app_data(JsonConfig::default().limit(sc.limit)),
            Extractor::Form => tr = tr.insert_header(("content-type", "application/x-www-form-urlencoded")).app_data(FormConfig::default().limit(sc.limit)),
            Extractor::Bytes | Extractor::String => tr = tr.insert_header(("content-type", "text/plain")).app_data(PayloadConfig::new(sc.limit)),
            Extractor::ToBytesLimited => {}
            Extractor::MpBytes | Extractor::MpText => {
                tr = tr
                    .insert_header(("content-type", format!("multipart/form-data; boundary={}", MP_BOUNDARY)))
                    .app_data(actix_multipart::form::MultipartFormConfig::default().total_limit(sc.limit).memory_limit(sc.limit))
            }
        }
        let req = tr.to_http_request();
        let boxed: Pin<Box<dyn Stream<Item = Result<Bytes, PayloadError>>>> = Box::pin(ScriptStream(st2.clone()));
        let mut pl = dev::Payload::Stream { payload: boxed };
        let result: Rc<RefCell<Option<Outcome>>> = Rc::new(RefCell::new(None));
        let r2 = result.clone();
        let limit = sc.limit;
        let fut: Pin<Box<dyn std::future::Future<Output = ()>>> = match sc.extractor {
            Extractor::Bytes => {
                let f = Bytes::from_request(&req, &mut pl);
                Box::pin(async move {
                    *r2.borrow_mut() = Some(match f.await {
                        Ok(b) => Outcome::Ok(b.to_vec()),
                        Err(e) => classify(&format!("{:?}", e)),
                    });
                })
            }
            Extractor::String => {
                let f = String::from_request(&req, &mut pl);
                Box::pin(async move {
                    *r2.borrow_mut() = Some(match f.await {
                        Ok(b) => Outcome::Ok(b.into_bytes()),
                        Err(e) => classify(&format!("{:?}", e)),
                    });
                })
            }
            Extractor::Json => {
                let f = Json::<serde_json::Value>::from_request(&req, &mut pl);
                Box::pin(async move {
                    *r2.borrow_mut() = Some(match f.await {
                        Ok(v) => Outcome::Ok(serde_json::to_vec(&v.0).unwrap_or_default()),
                        Err(e) => classify(&format!("{:?}", e)),
                    });
                })
            }
            Extractor::Form => {
                let f = Form::<Vec<(String, String)>>::from_request(&req, &mut pl);
                Box::pin(async move {
                    *r2.borrow_mut() = Some(match f.await {
                        Ok(v) => {
                            let mut o = Vec::new();
                            for (k, val) in v.0 {
                                o.extend_from_slice(k.as_bytes());
                                o.push(b'=');
                                o.extend_from_slice(val.as_bytes());
                            }
                            Outcome::Ok(o)
                        }
                        Err(e) => classify(&format!("{:?}", e)),
                    });
                })
            }
            Extractor::MpBytes => {
                let f = actix_multipart::form::MultipartForm::<MpFormBytes>::from_request(&req, &mut pl);
                Box::pin(async move {
                    *r2.borrow_mut() = Some(match f.await {
                        Ok(v) => Outcome::Ok(v.into_inner().f.data.to_vec()),
                        Err(e) => classify(&format!("{:?}", e)),
                    });
                })
            }
            Extractor::MpText => {
                let f = actix_multipart::form::MultipartForm::<MpFormText>::from_request(&req, &mut pl);
                Box::pin(async move {
                    *r2.borrow_mut() = Some(match f.await {
                        Ok(v) => Outcome::Ok(v.into_inner().f.into_inner().into_bytes()),
                        Err(e) => classify(&format!("{:?}", e)),
                    });
                })
            }
            Extractor::ToBytesLimited => {
                let p = web::Payload::from_request(&req, &mut pl).await.unwrap();
                Box::pin(async move {
                    *r2.borrow_mut() = Some(match p.to_bytes_limited(limit).await {
                        Ok(Ok(b)) => Outcome::Ok(b.to_vec()),
                        Ok(Err(e)) => classify(&format!("{:?}", e)),
                        Err(_) => Outcome::Overflow,
                    });
                })
            }
        };
        let base = crate::alloc::live();
        crate::alloc::reset_peak();
        let mut ex = Exec::new();
        let t = ex.spawn("extractor", fut);
        let mut steps = 0u64;
        let mut hang = None;
        loop {
            steps += 1;
            if steps > 2_000_000 {
                hang = Some("step budget".to_string());
                break;
            }
            if ex.tasks[t].flag.is_woken() {
                if ex.poll_task(t) {
                    break;
                }
                continue;
            }
            let w = st2.borrow_mut().waker.take();
            if let Some(w) = w {
                w.wake();
                continue;
            }
            // possibly a spawn_blocking decode job in flight: wait for its wake-up; with nothing in
            // flight the paused clock jumps to the deadline at once
            let dl = ex.now() + Duration::from_secs(5);
            if ex.idle_until(dl).await == Idle::Deadline {
                hang = Some("extractor parked with no wake-up pending".to_string());
                break;
            }
        }
        let peak = crate::alloc::peak().saturating_sub(base);
        let o = match hang {
            Some(h) => Outcome::Hang(h),
            None => result.borrow_mut().take().unwrap_or(Outcome::Hang("no result".into())),
        };
        drop(ex);
        (o, peak)
    });
    let s = st.borrow();
    OneRun {
        outcome,
        heap_peak_delta: peak,
        pulled_bytes: s.pulled_bytes,
        pulled_chunks: s.pulled_chunks,
        pending_fired: s.pending_fired,
        max_chunk,
        wire_len,
    }
}

fn classify(dbg: &str) -> Outcome {
    if dbg.contains("Overflow") || dbg.contains("overflow") || dbg.contains("BodyLimitExceeded") {
        Outcome::Overflow
    } else {
        Outcome::OtherErr(dbg.chars().take(120).collect())
    }
}

pub struct ExRig;

const LIMITS: &[usize] = &[0, 1, 7, 64, 1024, 32_768, 262_144];

impl Rig for ExRig {
    type Sc = ExScenario;
    fn property(&self) -> &'static str {
        "C12"
    }
    fn rig_name(&self) -> &'static str {
        "EX"
    }
    fn runs(&self, tier: Tier) -> u64 {
        match tier {
            Tier::Quick => 40_000,
            Tier::Thorough => 1_500_000,
        }
    }
    fn gen(&self, rng: &mut Rng, idx: u64, _tier: Tier) -> ExScenario {
        let extractor = *rng.pick(&[Extractor::Bytes, Extractor::String, Extractor::Json, Extractor::Form, Extractor::ToBytesLimited, Extractor::MpBytes, Extractor::MpText]);
        let limit = *rng.pick(LIMITS);
        let big = idx % 16 == 0;
        let len = if big {
            *rng.pick(&[2_200_000usize, 3_000_000])
        } else {
            match rng.below(6) {
                0 => limit.saturating_sub(1),
                1 => limit,
                2 => limit + 1,
                3 => limit * 10 + 3,
                4 => rng.range(0, limit.max(1) * 2),
                _ => limit + rng.range(1, 5000),
            }
        };
        let coding = if big {
            *rng.pick(&[Coding::Identity, Coding::Identity, Coding::Gzip, Coding::Deflate])
        } else {
            *rng.pick(&[Coding::Identity, Coding::Identity, Coding::Gzip, Coding::Deflate, Coding::Br, Coding::Zstd])
        };
        let nsz = rng.range(0, 4);
        let chunk_sizes: Vec<usize> = (0..nsz)
            .map(|_| {
                if big {
                    *rng.pick(&[1024usize, 2048, 2049, 8192, 65_536])
                } else {
                    *rng.pick(&[1usize, 2, 7, 100, 1023, 1024, 2048, 2049, 2050, 8192, 100_000])
                }
            })
            .collect();
        let chunk_sizes = if big && chunk_sizes.is_empty() { vec![16_384] } else { chunk_sizes };
        let mut sc = ExScenario {
            extractor,
            coding,
            limit,
            len,
            compressible: !big && rng.chance(1, 2),
            declared: *rng.pick(&[DeclaredLen::Absent, DeclaredLen::Absent, DeclaredLen::Honest, DeclaredLen::Honest, DeclaredLen::Smaller, DeclaredLen::Larger]),
            chunk_sizes,
            pendings: (0..rng.range(0, 5)).map(|_| if rng.chance(1, 3) { rng.range(1, 2) as u8 } else { 0 }).collect(),
            error_at_chunk: None,
            truncate_wire: None,
        };
        match rng.below(12) {
            0 => sc.error_at_chunk = Some(rng.usize(4)),
            1 if sc.coding != Coding::Identity => {
                let w = encode(sc.coding, &decoded_body(&sc)).len();
                sc.truncate_wire = Some(rng.range(0, w.saturating_sub(1)));
            }
            _ => {}
        }
        if is_mp(sc.extractor) {
            // the multipart extractor takes the payload as it is (no content decoding) and does
            // not look at Content-Length
            sc.coding = Coding::Identity;
            sc.truncate_wire = None;
            if matches!(sc.declared, DeclaredLen::Smaller | DeclaredLen::Larger) {
                sc.declared = DeclaredLen::Absent;
            }
        }
        sc
    }

    fn run(&self, sc: &ExScenario, _tape: Tape, narrative: bool) -> RunReport {
        let a = run_once(sc, false);
        let b = run_once(sc, true);
        let mut vs = Vec::new();
        let coding_applies = sc.extractor != Extractor::ToBytesLimited && sc.coding != Coding::Identity;
        let decoded = if sc.extractor == Extractor::ToBytesLimited {
            // `web::Payload` is the raw body: no content decoding, the limit applies to the wire bytes
            let mut w = encode(sc.coding, &decoded_body(sc));
            if let Some(t) = sc.truncate_wire {
                w.truncate(t.min(w.len()));
            }
            w
        } else {
            decoded_body(sc)
        };
        let n = decoded.len();
        let fault_trunc = sc.truncate_wire.is_some() && sc.extractor != Extractor::ToBytesLimited;
        let fault = sc.error_at_chunk.is_some() || fault_trunc;
        let name = format!("{:?}", sc.extractor);
        let want_value: Vec<u8> = match sc.extractor {
            Extractor::Json => decoded.clone(),
            Extractor::Form => decoded.clone(),
            _ => decoded.clone(),
        };
        for (which, r) in [("scheduled", &a), ("single-chunk", &b)] {
            match &r.outcome {
                Outcome::Ok(v) => {
                    let raw_value = matches!(sc.extractor, Extractor::Bytes | Extractor::String | Extractor::ToBytesLimited | Extractor::MpBytes | Extractor::MpText);
                    if (raw_value && v.len() > sc.limit) || (!raw_value && !fault && n > sc.limit) {
                        vs.push(Violation::new(
                            "C12.ok-implies-within",
                            format!("{}:{:?}:declared={:?}", name, sc.coding, sc.declared),
                            format!("{} run: extractor succeeded with a value of {} bytes, limit {} ({} wire bytes in chunks of at most {})", which, v.len(), sc.limit, r.wire_len, r.max_chunk),
                        ));
                    } else if !fault && n > sc.limit {
                        vs.push(Violation::new("C12.over-implies-overflow", format!("{}:{:?}:success", name, sc.coding), format!("{} run: decoded body of {} bytes exceeds limit {} but the extractor succeeded with {} bytes", which, n, sc.limit, v.len())));
                    } else if !fault && v != &want_value && !(sc.extractor == Extractor::Form && n < 2) && !(sc.extractor == Extractor::Json && n < 2) {
                        vs.push(Violation::new("C12.ok-implies-within", format!("{}:wrong-value", name), format!("{} run: value of {} bytes differs from the {} bytes sent", which, v.len(), want_value.len())));
                    } else if sc.truncate_wire.is_some() && coding_applies && v.len() < n {
                        vs.push(Violation::new("C12.over-implies-overflow", format!("short-success-after-truncated-{:?}", sc.coding), format!("{} run ({}): compressed body truncated after {} wire bytes, extractor succeeded with {} of {} bytes", which, name, r.wire_len, v.len(), n)));
                    }
                }
                Outcome::Overflow => {}
                Outcome::OtherErr(e) => {
                    if n > sc.limit && !fault {
                        // a parse/other error instead of the overflow error
                        let benign = sc.declared == DeclaredLen::Smaller || sc.declared == DeclaredLen::Larger;
                        let _ = benign;
                        vs.push(Violation::new(
                            "C12.over-implies-overflow",
                            format!("{}:{:?}:other-error", name, sc.coding),
                            format!("{} run: decoded body of {} bytes exceeds limit {}, extractor failed with {:?} instead of its overflow error", which, n, sc.limit, e),
                        ));
                    }
                }
                Outcome::Hang(h) => {
                    vs.push(Violation::new("C12.chunking-invariant", format!("{}:hang", name), format!("{} run: {}", which, h)));
                }
            }
        }
        if class(&a.outcome) != class(&b.outcome) && !fault {
            vs.push(Violation::new(
                "C12.chunking-invariant",
                format!("{}:{:?}:{}-vs-{}", name, sc.coding, class(&a.outcome), class(&b.outcome)),
                format!("same bytes and headers: {:?} when chunked as {:?} with Pending, {:?} in one chunk (decoded {} bytes, limit {}, declared {:?})", short(&a.outcome), &sc.chunk_sizes, short(&b.outcome), n, sc.limit, sc.declared),
            ));
        }
        // bounded hold (codecs with small, bounded working memory only)
        if matches!(sc.coding, Coding::Identity | Coding::Gzip | Coding::Deflate) && !sc.chunk_sizes.is_empty() {
            let ratio = if sc.compressible { 1100 } else { 3 };
            let bound = 2 * sc.limit + 2 * a.max_chunk * (1 + ratio) + 600_000;
            if a.heap_peak_delta > bound {
                vs.push(Violation::new(
                    "C12.bounded-hold",
                    format!("{}:{:?}", name, sc.coding),
                    format!("live heap grew by {} bytes while extracting (limit {}, largest chunk {}, decoded body {} bytes, bound {})", a.heap_peak_delta, sc.limit, a.max_chunk, n, bound),
                ));
            }
        }
        let mut stats: std::collections::BTreeMap<&'static str, u64> = Default::default();
        stats.insert("stream_pending", a.pending_fired);
        stats.insert("payload_error", sc.error_at_chunk.is_some() as u64);
        stats.insert("truncated_compressed", sc.truncate_wire.is_some() as u64);
        stats.insert("over_limit", (n > sc.limit) as u64);
        stats.insert("blocking_pool_chunk", (sc.coding != Coding::Identity && a.max_chunk >= 2049) as u64);
        stats.insert("chunks_pulled", a.pulled_chunks as u64);
        let mut h: u64 = 0xcbf29ce484222325;
        for x in [sc.extractor as u64, sc.coding as u64, sc.limit as u64, sc.len as u64, sc.declared as u64, sc.compressible as u64, sc.error_at_chunk.map(|e| e as u64 + 1).unwrap_or(0), sc.truncate_wire.map(|e| e as u64 + 1).unwrap_or(0)] {
            h = (h ^ x).wrapping_mul(0x100000001b3);
        }
        for c in &sc.chunk_sizes {
            h = (h ^ *c as u64).wrapping_mul(0x100000001b3);
        }
        for p in &sc.pendings {
            h = (h ^ *p as u64).wrapping_mul(0x100000001b3);
        }
        let narr = if narrative {
            vec![
                format!("{:?} limit {} decoded {} bytes ({:?}, declared {:?}), wire {} bytes, chunks {:?}, pendings {:?}, error_at {:?}, truncate {:?}", sc.extractor, sc.limit, n, sc.coding, sc.declared, a.wire_len, sc.chunk_sizes, sc.pendings, sc.error_at_chunk, sc.truncate_wire),
                format!("scheduled: {:?}, pulled {} bytes in {} chunks, heap +{}", short(&a.outcome), a.pulled_bytes, a.pulled_chunks, a.heap_peak_delta),
                format!("single chunk: {:?}, heap +{}", short(&b.outcome), b.heap_peak_delta),
            ]
        } else {
            vec![]
        };
        RunReport {
            violations: vs,
            trace_hash: h,
            stats,
            nontrivial: a.pulled_chunks >= 2 || a.pending_fired > 0,
            states: vec![],
            sim_ms: 0,
            steps: a.pulled_chunks as u64,
            tape: vec![],
            narrative: narr,
        }
    }

    fn nontrivial_rule(&self) -> &'static str {
        "a run is one (extractor, limit, decoded length around the limit, content coding, declared length, chunking with Pending, optional stream fault) executed twice — under the drawn chunking/Pending pattern and as a single chunk; non-trivial = at least two chunks pulled or a Pending actually returned; distinct = distinct scenario tuple"
    }
    fn real_components(&self) -> Vec<&'static str> {
        vec!["actix_web FromRequest for Bytes / String / Json<T> / Form<T> (HttpMessageBody, JsonBody, UrlEncoded)", "web::Payload::to_bytes_limited (body::to_bytes_limited)", "actix_multipart::form::MultipartForm<T> with bytes::Bytes / text::Text fields and Limits", "actix_http::encoding::Decoder (gzip, deflate, br, zstd; in-place and spawn_blocking paths)"]
    }
    fn stub_components(&self) -> Vec<&'static str> {
        vec!["request payload stream (scripted chunks, Pending, error, truncation)", "wake-driven executor on the paused clock", "third-party codecs used as encoders (flate2, brotli, zstd)", "counting allocator"]
    }
    fn assumptions(&self) -> Vec<&'static str> {
        vec!["MultipartForm is driven with one in-memory field (bytes or text) under the total and memory limits of MultipartFormConfig; per-field limit attributes and temp-file fields are not driven (multipart parsing itself is C15)", "live-heap bound checked for identity/gzip/deflate only (brotli/zstd contexts are megabytes by themselves)"]
    }
    fn expected_probes(&self) -> Vec<&'static str> {
        vec!["stream_pending", "payload_error", "truncated_compressed", "over_limit", "blocking_pool_chunk"]
    }
}

fn short(o: &Outcome) -> String {
    match o {
        Outcome::Ok(v) => format!("Ok({} bytes)", v.len()),
        Outcome::Overflow => "Overflow".into(),
        Outcome::OtherErr(e) => format!("Err({})", e),
        Outcome::Hang(h) => format!("Hang({})", h),
    }
}
