//! Rig PC (C07): the request-body channel `h1::Payload::create()` driven directly.
//!
//! Two scripted parties — a feeder (what the dispatcher does) and a reader (what a handler does)
//! — each with its own counting waker; the scenario *is* the interleaving: a sequence of single
//! operations. Reference model: a byte queue plus {eof, err, sender_gone}.

use std::{
    collections::VecDeque,
    pin::Pin,
    sync::{
        atomic::{AtomicU64, Ordering},
        Arc,
    },
    task::{Context, Poll, Wake, Waker},
};

use actix_http::error::PayloadError;
use bytes::Bytes;
use futures_core::Stream;
use serde::{Deserialize, Serialize};

use crate::{
    batch::{Rig, RunReport, Tier, Violation},
    rng::{Rng, Tape},
};

const MAX_BUFFER_SIZE: usize = 32_768;

#[derive(Clone, Copy, Debug, Serialize, Deserialize, PartialEq, Eq)]
pub enum ErrKind {
    Incomplete,
    EncodingCorrupted,
    Overflow,
}

#[derive(Clone, Copy, Debug, Serialize, Deserialize, PartialEq, Eq)]
pub enum Op {
    NeedRead,
    FeedData(u32),
    FeedEof,
    SetError(ErrKind),
    DropSender,
    Poll,
    /// reader polls with a different (non-equivalent) waker, as after moving to another task
    PollOther,
    Unread(u32),
    DropReader,
}

#[derive(Clone, Debug, Serialize, Deserialize)]
pub struct PcScenario {
    pub ops: Vec<Op>,
}

struct Count(AtomicU64);
impl Wake for Count {
    fn wake(self: Arc<Self>) {
        self.0.fetch_add(1, Ordering::SeqCst);
    }
    fn wake_by_ref(self: &Arc<Self>) {
        self.0.fetch_add(1, Ordering::SeqCst);
    }
}

static PATTERN: std::sync::OnceLock<Vec<u8>> = std::sync::OnceLock::new();

fn pattern() -> &'static [u8] {
    PATTERN.get_or_init(|| {
        let mut v = Vec::with_capacity(1 << 18);
        let mut x = 0x1234_5678_9abc_def0u64;
        for _ in 0..(1 << 18) {
            v.push(crate::rng::splitmix(&mut x) as u8);
        }
        v
    })
}

/// k-th piece of data fed / unread in a run: distinct content per k so that reordering shows.
fn piece(k: usize, len: usize) -> Bytes {
    let p = pattern();
    let off = (k * 7919) % (p.len() - 70_000);
    Bytes::from_static(&p[off..off + len])
}

pub const SIZES: &[u32] = &[0, 1, 100, 16_384, 32_767, 32_768, 32_769, 65_536];

pub struct PcRig;

fn perr(k: ErrKind) -> PayloadError {
    match k {
        ErrKind::Incomplete => PayloadError::Incomplete(None),
        ErrKind::EncodingCorrupted => PayloadError::EncodingCorrupted,
        ErrKind::Overflow => PayloadError::Overflow,
    }
}

fn same_err(e: &PayloadError, k: ErrKind) -> bool {
    matches!(
        (e, k),
        (PayloadError::Incomplete(_), ErrKind::Incomplete) | (PayloadError::EncodingCorrupted, ErrKind::EncodingCorrupted) | (PayloadError::Overflow, ErrKind::Overflow)
    )
}

impl Rig for PcRig {
    type Sc = PcScenario;
    fn property(&self) -> &'static str {
        "C07"
    }
    fn rig_name(&self) -> &'static str {
        "PC"
    }
    fn runs(&self, tier: Tier) -> u64 {
        match tier {
            Tier::Quick => 3_000_000,
            Tier::Thorough => 300_000_000,
        }
    }
    fn gen(&self, rng: &mut Rng, _idx: u64, _tier: Tier) -> PcScenario {
        let n = rng.range(1, 14);
        let mut ops = Vec::with_capacity(n);
        let mut sender_alive = true;
        let mut reader_alive = true;
        let mut eof_fed = false;
        for _ in 0..n {
            let op = loop {
                let c = rng.below(100);
                let cand = match c {
                    0..=24 if sender_alive && !eof_fed => Op::FeedData(*rng.pick(SIZES)),
                    25..=34 if sender_alive => Op::NeedRead,
                    35..=41 if sender_alive && !eof_fed => Op::FeedEof,
                    42..=47 if sender_alive && !eof_fed => Op::SetError(*rng.pick(&[ErrKind::Incomplete, ErrKind::EncodingCorrupted, ErrKind::Overflow])),
                    48..=52 if sender_alive => Op::DropSender,
                    53..=81 if reader_alive => Op::Poll,
                    82..=89 if reader_alive => Op::PollOther,
                    90..=95 if reader_alive => Op::Unread(*rng.pick(&[1u32, 100, 32_768])),
                    96..=99 if reader_alive => Op::DropReader,
                    _ => continue,
                };
                break cand;
            };
            match op {
                Op::DropSender => sender_alive = false,
                Op::DropReader => reader_alive = false,
                Op::FeedEof => eof_fed = true,
                _ => {}
            }
            ops.push(op);
            if !sender_alive && !reader_alive {
                break;
            }
        }
        PcScenario { ops }
    }

    fn run(&self, sc: &PcScenario, _tape: Tape, narrative: bool) -> RunReport {
        let mut vs: Vec<Violation> = Vec::new();
        let mut narr = Vec::new();
        let (sender, payload) = actix_http::h1::Payload::create(false);
        let mut sender = Some(sender);
        let mut payload = Some(payload);
        let rc = Arc::new(Count(AtomicU64::new(0)));
        let fc = Arc::new(Count(AtomicU64::new(0)));
        let rc2 = Arc::new(Count(AtomicU64::new(0)));
        let rw = Waker::from(rc.clone());
        let rw2 = Waker::from(rc2.clone());
        let fw = Waker::from(fc.clone());
        // which waker the reader used for its last Pending poll
        let mut pending_with_other = false;

        // reference model
        let mut q: VecDeque<Bytes> = VecDeque::new();
        let mut qlen: usize = 0;
        let mut eof = false;
        let mut err: Option<ErrKind> = None;
        let mut sender_closed = false; // eof / error / drop happened: later drops add nothing
        let mut reader_pending = false; // last reader poll returned Pending
        let mut feeder_paused = false; // last need_read returned Pause
        let mut reader_ended = false;
        let mut k = 0usize;
        let mut hash: u64 = 0xcbf29ce484222325;
        let mut stats: std::collections::BTreeMap<&'static str, u64> = Default::default();
        let mut fed_total = 0usize;

        for (i, op) in sc.ops.iter().enumerate() {
            let r0 = rc.0.load(Ordering::SeqCst);
            let r0b = rc2.0.load(Ordering::SeqCst);
            let f0 = fc.0.load(Ordering::SeqCst);
            let mut note = String::new();
            let mut must_wake_reader = false;
            match *op {
                Op::NeedRead => {
                    if let Some(s) = sender.as_ref() {
                        let mut cx = Context::from_waker(&fw);
                        let st = format!("{:?}", s.need_read(&mut cx));
                        feeder_paused = st == "Pause";
                        if feeder_paused {
                            *stats.entry("feeder_paused").or_insert(0) += 1;
                        }
                        if st == "Dropped" && payload.is_some() {
                            vs.push(Violation::new("C07.truthful-end", "dropped-while-reader-alive", format!("op {}: need_read reports Dropped while the reader exists", i)));
                        }
                        note = st;
                    }
                }
                Op::FeedData(n) => {
                    if let Some(s) = sender.as_mut() {
                        let b = piece(k, n as usize);
                        k += 1;
                        s.feed_data(b.clone());
                        fed_total += n as usize;
                        if payload.is_some() {
                            q.push_back(b);
                            qlen += n as usize;
                        }
                        must_wake_reader = reader_pending;
                    }
                }
                Op::FeedEof => {
                    if let Some(s) = sender.as_mut() {
                        s.feed_eof();
                        eof = true;
                        sender_closed = true;
                        must_wake_reader = reader_pending;
                    }
                }
                Op::SetError(kind) => {
                    if let Some(s) = sender.as_mut() {
                        s.set_error(perr(kind));
                        err = Some(kind);
                        sender_closed = true;
                        must_wake_reader = reader_pending;
                    }
                }
                Op::DropSender => {
                    if sender.take().is_some() {
                        if !sender_closed {
                            // the feeding side disappeared without signalling an end
                            err = Some(ErrKind::Incomplete);
                            sender_closed = true;
                            must_wake_reader = reader_pending;
                            *stats.entry("sender_vanished").or_insert(0) += 1;
                        }
                    }
                }
                Op::Unread(n) => {
                    if let Some(p) = payload.as_mut() {
                        let b = piece(k, n as usize);
                        k += 1;
                        p.unread_data(b.clone());
                        q.push_front(b);
                        qlen += n as usize;
                    }
                }
                Op::DropReader => {
                    payload = None;
                    reader_pending = false;
                }
                Op::Poll | Op::PollOther => {
                    if reader_ended {
                        continue;
                    }
                    if let Some(p) = payload.as_mut() {
                        let other = matches!(op, Op::PollOther);
                        let mut cx = Context::from_waker(if other { &rw2 } else { &rw });
                        pending_with_other = other;
                        let res = Pin::new(p).poll_next(&mut cx);
                        reader_pending = false;
                        match (&res, q.front()) {
                            (Poll::Ready(Some(Ok(b))), Some(front)) => {
                                if b != front {
                                    vs.push(Violation::new("C07.exact-bytes", "wrong-chunk", format!("op {}: reader got {} bytes, the model's next item has {} bytes (content equal: {})", i, b.len(), front.len(), b[..] == front[..])));
                                }
                                qlen -= front.len();
                                q.pop_front();
                                note = format!("data {}", b.len());
                            }
                            (Poll::Ready(Some(Ok(b))), None) => {
                                vs.push(Violation::new("C07.exact-bytes", "data-from-nowhere", format!("op {}: reader got {} bytes but nothing is queued", i, b.len())));
                            }
                            (other, Some(front)) => {
                                let what = match other {
                                    Poll::Pending => "Pending".to_string(),
                                    Poll::Ready(None) => "clean end".to_string(),
                                    Poll::Ready(Some(Err(e))) => format!("error {:?}", e),
                                    _ => unreachable!(),
                                };
                                vs.push(Violation::new(
                                    "C07.truthful-end",
                                    format!("{}-before-queued-data", if what.starts_with("error") { "error" } else if what == "Pending" { "pending" } else { "clean-end" }),
                                    format!("op {}: {} returned while {} bytes ({} items) are still queued", i, what, qlen, q.len()),
                                ));
                                let _ = front;
                                reader_ended = true;
                            }
                            (Poll::Ready(Some(Err(e))), None) => {
                                match err {
                                    Some(kind) if same_err(e, kind) => {}
                                    Some(kind) => vs.push(Violation::new("C07.truthful-end", "wrong-error", format!("op {}: error {:?} reported, {:?} was set", i, e, kind))),
                                    None => vs.push(Violation::new("C07.truthful-end", "error-from-nowhere", format!("op {}: error {:?} reported but none was set and the sender is {}", i, e, if sender.is_some() { "alive" } else { "gone" }))),
                                }
                                err = None;
                                // after an error only a clean end may follow (if eof was also fed)
                                if !eof {
                                    reader_ended = true;
                                }
                                note = "error".into();
                            }
                            (Poll::Ready(None), None) => {
                                if err.is_some() {
                                    vs.push(Violation::new("C07.truthful-end", "error-lost", format!("op {}: clean end reported although error {:?} was set and never delivered", i, err)));
                                } else if !eof {
                                    vs.push(Violation::new(
                                        "C07.truthful-end",
                                        if sender.is_none() { "clean-end-after-sender-vanished" } else { "clean-end-without-eof" },
                                        format!("op {}: clean end reported but the end of the body was never signalled (sender {})", i, if sender.is_some() { "alive" } else { "gone" }),
                                    ));
                                }
                                reader_ended = true;
                                note = "end".into();
                            }
                            (Poll::Pending, None) => {
                                if err.is_some() || eof {
                                    vs.push(Violation::new("C07.truthful-end", "pending-after-end", format!("op {}: Pending although {} was signalled and nothing is queued", i, if err.is_some() { "an error" } else { "the end" })));
                                    reader_ended = true;
                                } else {
                                    reader_pending = true;
                                }
                                note = "pending".into();
                            }
                        }
                        // feeder wake-up once drained below the limit
                        if feeder_paused && qlen < MAX_BUFFER_SIZE && sender.is_some() {
                            let f1 = fc.0.load(Ordering::SeqCst);
                            if f1 == f0 {
                                vs.push(Violation::new("C07.feeder-woken", "", format!("op {}: the feeder was told to pause; the reader has now drained the buffer to {} bytes (< 32 KiB) but the feeder's waker was not called", i, qlen)));
                            } else {
                                *stats.entry("feeder_woken").or_insert(0) += 1;
                            }
                            feeder_paused = false;
                        }
                    }
                }
            }
            // a woken feeder has to ask again (its waker was consumed)
            if !matches!(op, Op::NeedRead) && fc.0.load(Ordering::SeqCst) != f0 {
                feeder_paused = false;
            }
            if must_wake_reader && payload.is_some() {
                // the waker of the *last* Pending poll is the one that must fire
                let (r1, r0) = if pending_with_other { (rc2.0.load(Ordering::SeqCst), r0b) } else { (rc.0.load(Ordering::SeqCst), r0) };
                if r1 == r0 {
                    vs.push(Violation::new(
                        "C07.reader-woken",
                        format!("{}", match op { Op::FeedData(_) => "feed_data", Op::FeedEof => "feed_eof", Op::SetError(_) => "set_error", Op::DropSender => "sender-drop", _ => "other" }),
                        format!("op {} ({:?}): the reader's last poll returned Pending, yet its waker was not called", i, op),
                    ));
                } else {
                    *stats.entry("reader_woken").or_insert(0) += 1;
                }
                reader_pending = false;
            }
            let code = match op {
                Op::NeedRead => 1u64,
                Op::FeedData(n) => 2 + ((*n as u64) << 8),
                Op::FeedEof => 3,
                Op::SetError(_) => 4,
                Op::DropSender => 5,
                Op::Poll => 6,
                Op::PollOther => 9,
                Op::Unread(n) => 7 + ((*n as u64) << 8),
                Op::DropReader => 8,
            };
            hash ^= code.wrapping_add(i as u64);
            hash = hash.wrapping_mul(0x100000001b3);
            if narrative {
                narr.push(format!("#{} {:?} -> {} | model: {} bytes in {} items, eof={}, err={:?}, reader_wakes={}, feeder_wakes={}", i, op, note, qlen, q.len(), eof, err, rc.0.load(Ordering::SeqCst), fc.0.load(Ordering::SeqCst)));
            }
        }
        let nontrivial = sc.ops.len() >= 3 && fed_total > 0 && sc.ops.iter().any(|o| matches!(o, Op::Poll | Op::PollOther));
        // abstract state: the first 8 operations
        let mut st: u64 = 0x9E3779B97F4A7C15;
        for op in sc.ops.iter().take(8) {
            let code = match op {
                Op::NeedRead => 1u64,
                Op::FeedData(n) => 16 + SIZES.iter().position(|s| s == n).unwrap_or(0) as u64,
                Op::FeedEof => 3,
                Op::SetError(k) => 4 + *k as u64 * 64,
                Op::DropSender => 5,
                Op::Poll => 6,
                Op::PollOther => 9,
                Op::Unread(n) => 32 + *n as u64 % 7,
                Op::DropReader => 8,
            };
            st = (st ^ code).wrapping_mul(0x100000001b3);
        }
        RunReport {
            violations: vs,
            trace_hash: hash,
            stats,
            nontrivial,
            states: vec![st],
            sim_ms: 0,
            steps: sc.ops.len() as u64,
            tape: vec![],
            narrative: narr,
        }
    }

    fn shrink(&self, sc: &PcScenario) -> Vec<PcScenario> {
        let mut v = Vec::new();
        for i in (0..sc.ops.len()).rev() {
            let mut o = sc.ops.clone();
            o.remove(i);
            v.push(PcScenario { ops: o });
        }
        for i in 0..sc.ops.len() {
            if let Op::FeedData(n) = sc.ops[i] {
                if n > 1 {
                    let mut o = sc.ops.clone();
                    o[i] = Op::FeedData(1);
                    v.push(PcScenario { ops: o });
                }
            }
        }
        v
    }

    fn nontrivial_rule(&self) -> &'static str {
        "a run is one interleaved sequence of ≤14 single feeder/reader operations on a real h1::Payload pair (the interleaving itself is the scenario); non-trivial = at least 3 operations, some data fed and at least one reader poll; distinct = distinct operation sequence (kinds and sizes); distinct_abstract_states = distinct 8-operation prefixes"
    }
    fn real_components(&self) -> Vec<&'static str> {
        vec!["actix_http::h1::Payload / PayloadSender (Payload::create)"]
    }
    fn stub_components(&self) -> Vec<&'static str> {
        vec!["feeder (scripted dispatcher side)", "reader (scripted handler side)", "counting wakers", "byte-queue reference model"]
    }
    fn assumptions(&self) -> Vec<&'static str> {
        vec!["the reader stops polling after it has observed an end (error without eof, or clean end)", "when exactly `Pause` is reported is C05's concern and not checked here"]
    }
    fn expected_probes(&self) -> Vec<&'static str> {
        vec!["feeder_paused", "feeder_woken", "reader_woken", "sender_vanished"]
    }
}
