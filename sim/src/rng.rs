//! Single source of randomness: xoshiro256** seeded through splitmix64, and the decision tape.
//!
//! Nothing else in the simulator may draw randomness (no `rand`, no `thread_rng`, no hash-map
//! iteration order in any decision path).

#[derive(Clone, Debug)]
pub struct Rng {
    s: [u64; 4],
}

pub fn splitmix(x: &mut u64) -> u64 {
    *x = x.wrapping_add(0x9E37_79B9_7F4A_7C15);
    let mut z = *x;
    z = (z ^ (z >> 30)).wrapping_mul(0xBF58_476D_1CE4_E5B9);
    z = (z ^ (z >> 27)).wrapping_mul(0x94D0_49BB_1331_11EB);
    z ^ (z >> 31)
}

/// Mix a batch seed, a property tag and a run index into a run seed.
pub fn mix(seed: u64, tag: &str, idx: u64) -> u64 {
    let mut x = seed ^ 0xA076_1D64_78BD_642F;
    for b in tag.bytes() {
        x = x.wrapping_mul(0x100_0000_01B3) ^ (b as u64);
    }
    x ^= idx.wrapping_mul(0xE703_7ED1_A0B4_28DB);
    let mut y = x;
    splitmix(&mut y)
}

impl Rng {
    pub fn new(seed: u64) -> Self {
        let mut x = seed;
        let s = [
            splitmix(&mut x),
            splitmix(&mut x),
            splitmix(&mut x),
            splitmix(&mut x),
        ];
        Rng { s }
    }

    pub fn next_u64(&mut self) -> u64 {
        let r = self.s[1].wrapping_mul(5).rotate_left(7).wrapping_mul(9);
        let t = self.s[1] << 17;
        self.s[2] ^= self.s[0];
        self.s[3] ^= self.s[1];
        self.s[1] ^= self.s[2];
        self.s[0] ^= self.s[3];
        self.s[2] ^= t;
        self.s[3] = self.s[3].rotate_left(45);
        r
    }

    /// Uniform in `0..n` (n > 0).
    pub fn below(&mut self, n: u64) -> u64 {
        debug_assert!(n > 0);
        // multiply-shift; bias is irrelevant here
        ((self.next_u64() as u128 * n as u128) >> 64) as u64
    }

    pub fn usize(&mut self, n: usize) -> usize {
        self.below(n as u64) as usize
    }

    /// Inclusive range.
    pub fn range(&mut self, lo: usize, hi: usize) -> usize {
        lo + self.usize(hi - lo + 1)
    }

    /// True with probability num/den.
    pub fn chance(&mut self, num: u64, den: u64) -> bool {
        self.below(den) < num
    }

    pub fn pick<'a, T>(&mut self, xs: &'a [T]) -> &'a T {
        &xs[self.usize(xs.len())]
    }

    /// Weighted pick: returns index.
    pub fn weighted(&mut self, ws: &[u32]) -> usize {
        let tot: u64 = ws.iter().map(|w| *w as u64).sum();
        let mut r = self.below(tot.max(1));
        for (i, w) in ws.iter().enumerate() {
            if r < *w as u64 {
                return i;
            }
            r -= *w as u64;
        }
        ws.len() - 1
    }

    pub fn fork(&mut self) -> Rng {
        Rng::new(self.next_u64())
    }
}

/// The decision tape: every scheduler / socket choice made *during* a run is one draw.
///
/// A tape has an explicit prefix (used by replay files and the shrinker) and falls back to a PRNG
/// once the prefix is exhausted. All draws are recorded, so a finished run can always be replayed
/// from the recording alone.
#[derive(Clone, Debug)]
pub struct Tape {
    fixed: Vec<u32>,
    pos: usize,
    rng: Rng,
    pub record: Vec<u32>,
    /// when true, draws beyond the fixed prefix return 0 (used by the shrinker to prefer
    /// the simplest schedule)
    zero_tail: bool,
}

impl Tape {
    pub fn from_seed(seed: u64) -> Self {
        Tape {
            fixed: Vec::new(),
            pos: 0,
            rng: Rng::new(seed),
            record: Vec::new(),
            zero_tail: false,
        }
    }

    pub fn from_fixed(fixed: Vec<u32>, seed: u64, zero_tail: bool) -> Self {
        Tape {
            fixed,
            pos: 0,
            rng: Rng::new(seed),
            record: Vec::new(),
            zero_tail,
        }
    }

    /// Draw a value in `0..n`.
    pub fn draw(&mut self, n: u32) -> u32 {
        let n = n.max(1);
        let v = if self.pos < self.fixed.len() {
            self.fixed[self.pos] % n
        } else if self.zero_tail {
            0
        } else {
            self.rng.below(n as u64) as u32
        };
        self.pos += 1;
        self.record.push(v);
        v
    }

    pub fn chance(&mut self, num: u32, den: u32) -> bool {
        self.draw(den) < num
    }

    pub fn draws(&self) -> usize {
        self.pos
    }
}
