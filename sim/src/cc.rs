//! Rig CC (C13): `middleware::Compress` → `encoding::Encoder` (response direction) and
//! `encoding::Decoder` (request direction) with scripted bodies under the wake-driven executor;
//! the third-party codec libraries are the reference decoders/encoders.

use std::{
    cell::RefCell,
    io::{Read, Write},
    pin::Pin,
    rc::Rc,
    task::{Context, Poll, Waker},
    time::Duration,
};

use actix_http::{
    body::{BodySize, MessageBody},
    encoding::Decoder,
    error::PayloadError,
};
use actix_web::{http::StatusCode, middleware::Compress, test as awtest, web, App, HttpResponse};
use bytes::Bytes;
use futures_core::Stream;
use serde::{Deserialize, Serialize};

use crate::{
    batch::{Rig, RunReport, Tier, Violation},
    exec::{run_sim, Exec, Idle},
    rng::{Rng, Tape},
};

#[derive(Clone, Debug, Serialize, Deserialize, PartialEq, Eq)]
pub enum BodyKind {
    Empty,
    /// a `Bytes` body (sized, try_into_bytes succeeds)
    Full,
    /// a streaming body (BodySize::Stream)
    Stream,
    /// a streaming body that declares its size
    SizedStream,
}

#[derive(Clone, Debug, Serialize, Deserialize)]
pub struct RespScenario {
    pub accept_encoding: Option<String>,
    pub status: u16,
    pub body: BodyKind,
    pub len: usize,
    pub compressible: bool,
    pub chunk_sizes: Vec<usize>,
    pub pendings: Vec<u8>,
    pub preset_content_encoding: Option<String>,
    pub content_type: Option<String>,
    pub user_content_length: bool,
    /// serve over a simulated HTTP/1 connection and judge the bytes on the wire (parsed by the
    /// independent response reader) instead of the in-process response object
    #[serde(default)]
    pub wire: bool,
    /// the handler announces the length itself with `no_chunking(len)`
    #[serde(default)]
    pub no_chunking: bool,
}

#[derive(Clone, Debug, Serialize, Deserialize)]
pub struct ReqScenario {
    pub coding: String,
    pub len: usize,
    pub compressible: bool,
    pub chunk_sizes: Vec<usize>,
    pub pendings: Vec<u8>,
    pub truncate_wire: Option<usize>,
    pub flip_bit_at: Option<usize>,
}

#[derive(Clone, Debug, Serialize, Deserialize)]
pub enum CcScenario {
    Response(RespScenario),
    Request(ReqScenario),
}

fn content(len: usize, compressible: bool) -> Vec<u8> {
    if compressible {
        (0..len).map(|i| b"the quick brown fox "[i % 20]).collect()
    } else {
        let mut x = 0xC0FF_EE00u64 ^ (len as u64) << 5;
        (0..len).map(|_| crate::rng::splitmix(&mut x) as u8).collect()
    }
}

fn ref_encode(coding: &str, data: &[u8]) -> Vec<u8> {
    match coding {
        "gzip" => {
            let mut e = flate2::write::GzEncoder::new(Vec::new(), flate2::Compression::fast());
            e.write_all(data).unwrap();
            e.finish().unwrap()
        }
        "deflate" => {
            let mut e = flate2::write::ZlibEncoder::new(Vec::new(), flate2::Compression::fast());
            e.write_all(data).unwrap();
            e.finish().unwrap()
        }
        "br" => {
            let mut out = Vec::new();
            {
                let mut w = brotli::CompressorWriter::new(&mut out, 4096, 1, 20);
                w.write_all(data).unwrap();
            }
            out
        }
        "zstd" => zstd::encode_all(data, 1).unwrap(),
        _ => data.to_vec(),
    }
}

fn ref_decode(coding: &str, data: &[u8]) -> Result<Vec<u8>, String> {
    let mut out = Vec::new();
    match coding {
        "gzip" => flate2::read::GzDecoder::new(data).read_to_end(&mut out).map(|_| ()).map_err(|e| e.to_string())?,
        "deflate" => flate2::read::ZlibDecoder::new(data).read_to_end(&mut out).map(|_| ()).map_err(|e| e.to_string())?,
        "br" => brotli::Decompressor::new(data, 4096).read_to_end(&mut out).map(|_| ()).map_err(|e| e.to_string())?,
        "zstd" => out = zstd::decode_all(data).map_err(|e| e.to_string())?,
        "identity" | "" => out = data.to_vec(),
        other => return Err(format!("unknown coding {}", other)),
    }
    Ok(out)
}

/// Independent RFC 7231 §5.3.4 evaluator: is `coding` acceptable under this Accept-Encoding value?
pub fn acceptable(header: Option<&str>, coding: &str) -> bool {
    let h = match header {
        None => return true,
        Some(h) => h,
    };
    let mut explicit: Option<f64> = None;
    let mut star: Option<f64> = None;
    for item in h.split(',') {
        let item = item.trim();
        if item.is_empty() {
            continue;
        }
        let mut parts = item.split(';');
        let name = parts.next().unwrap().trim().to_ascii_lowercase();
        let mut q = 1.0f64;
        for p in parts {
            let p = p.trim();
            if let Some(v) = p.strip_prefix("q=").or_else(|| p.strip_prefix("Q=")) {
                q = v.trim().parse::<f64>().unwrap_or(1.0);
            }
        }
        if name == coding {
            // the highest q given for a repeated coding counts
            explicit = Some(explicit.map_or(q, |e: f64| e.max(q)));
        } else if name == "*" {
            star = Some(star.map_or(q, |e: f64| e.max(q)));
        }
    }
    match (explicit, star) {
        (Some(q), _) => q > 0.0,
        (None, Some(q)) => q > 0.0,
        // identity is acceptable unless excluded; anything else must be listed
        (None, None) => coding == "identity",
    }
}

struct BodyState {
    chunks: Vec<Bytes>,
    k: usize,
    pendings: Vec<u8>,
    waker: Option<Waker>,
    pending_fired: u64,
    polls_after_end: u64,
    done: bool,
}

struct ScriptBody {
    st: Rc<RefCell<BodyState>>,
    size: BodySize,
}

impl MessageBody for ScriptBody {
    type Error = std::io::Error;
    fn size(&self) -> BodySize {
        self.size
    }
    fn poll_next(self: Pin<&mut Self>, cx: &mut Context<'_>) -> Poll<Option<Result<Bytes, Self::Error>>> {
        let mut st = self.st.borrow_mut();
        if st.done {
            st.polls_after_end += 1;
            return Poll::Ready(None);
        }
        if st.k >= st.chunks.len() {
            st.done = true;
            return Poll::Ready(None);
        }
        let k = st.k;
        let n = st.pendings.len().max(1);
        if let Some(p) = st.pendings.get_mut(k % n) {
            if *p > 0 {
                *p -= 1;
                st.waker = Some(cx.waker().clone());
                st.pending_fired += 1;
                return Poll::Pending;
            }
        }
        let c = st.chunks[k].clone();
        st.k += 1;
        Poll::Ready(Some(Ok(c)))
    }
}

struct ScriptStream(Rc<RefCell<BodyState>>);
impl Stream for ScriptStream {
    type Item = Result<Bytes, PayloadError>;
    fn poll_next(self: Pin<&mut Self>, cx: &mut Context<'_>) -> Poll<Option<Self::Item>> {
        let mut st = self.0.borrow_mut();
        if st.done {
            st.polls_after_end += 1;
            return Poll::Ready(None);
        }
        if st.k >= st.chunks.len() {
            st.done = true;
            return Poll::Ready(None);
        }
        let k = st.k;
        let n = st.pendings.len().max(1);
        if let Some(p) = st.pendings.get_mut(k % n) {
            if *p > 0 {
                *p -= 1;
                st.waker = Some(cx.waker().clone());
                st.pending_fired += 1;
                return Poll::Pending;
            }
        }
        let c = st.chunks[k].clone();
        st.k += 1;
        Poll::Ready(Some(Ok(c)))
    }
}

fn split(data: &[u8], sizes: &[usize]) -> Vec<Bytes> {
    let b = Bytes::copy_from_slice(data);
    if sizes.is_empty() {
        return if b.is_empty() { vec![] } else { vec![b] };
    }
    let mut v = Vec::new();
    let mut off = 0;
    let mut i = 0;
    while off < b.len() {
        let n = sizes[i % sizes.len()].max(1).min(b.len() - off);
        v.push(b.slice(off..off + n));
        off += n;
        i += 1;
    }
    v
}

/// Drive a future on the wake-driven executor; `waker_slot` is where the scripted source parks.
async fn drive(fut: Pin<Box<dyn std::future::Future<Output = ()>>>, st: Rc<RefCell<BodyState>>) -> Option<String> {
    let mut ex = Exec::new();
    let t = ex.spawn("cc", fut);
    let mut steps = 0u64;
    loop {
        steps += 1;
        if steps > 3_000_000 {
            return Some("step budget exhausted (body never ends)".into());
        }
        if ex.tasks[t].flag.is_woken() {
            if ex.poll_task(t) {
                return None;
            }
            continue;
        }
        let w = st.borrow_mut().waker.take();
        if let Some(w) = w {
            w.wake();
            continue;
        }
        let dl = ex.now() + Duration::from_secs(5);
        if ex.idle_until(dl).await == Idle::Deadline {
            return Some("parked with no wake-up pending (body stream never terminates)".into());
        }
    }
}

struct RespOut {
    status: u16,
    headers: Vec<(String, String)>,
    body: Vec<u8>,
    hang: Option<String>,
    body_error: Option<String>,
    pending_fired: u64,
}

fn build_response(sc: &RespScenario, st: Rc<RefCell<BodyState>>, data: Vec<u8>) -> HttpResponse {
    let mut b = HttpResponse::build(StatusCode::from_u16(sc.status).unwrap());
    if let Some(ce) = &sc.preset_content_encoding {
        b.insert_header(("content-encoding", ce.as_str()));
    }
    if let Some(ct) = &sc.content_type {
        b.insert_header(("content-type", ct.as_str()));
    }
    if sc.no_chunking && sc.body != BodyKind::Empty {
        b.no_chunking(data.len() as u64);
    } else if sc.user_content_length {
        b.insert_header(("content-length", data.len().to_string()));
    }
    match sc.body {
        BodyKind::Empty => b.finish(),
        BodyKind::Full => b.body(Bytes::from(data)),
        BodyKind::Stream => b.body(ScriptBody { st, size: BodySize::Stream }),
        BodyKind::SizedStream => b.body(ScriptBody { st, size: BodySize::Sized(data.len() as u64) }),
    }
}

/// The same response served over a simulated HTTP/1 connection; what is judged is what an
/// independent reader makes of the bytes on the wire.
fn run_response_wire(sc: &RespScenario) -> RespOut {
    use actix_http::{HttpService, Protocol};
    use actix_service::{map_config, Service, ServiceFactory};
    use actix_web::dev::AppConfig;
    let data = content(sc.len, sc.compressible);
    let chunks = split(&data, &sc.chunk_sizes);
    let st = Rc::new(RefCell::new(BodyState { chunks, k: 0, pendings: sc.pendings.clone(), waker: None, pending_fired: 0, polls_after_end: 0, done: false }));
    let sc2 = sc.clone();
    let st2 = st.clone();
    let mut o = run_sim(async move {
        let sc = sc2;
        let (sc_h, st_h, data_h) = (sc.clone(), st2.clone(), data.clone());
        let app = move || {
            let (sc_h, st_h, data_h) = (sc_h.clone(), st_h.clone(), data_h.clone());
            App::new().wrap(Compress::default()).default_service(web::to(move || {
                let (sc, st, data) = (sc_h.clone(), st_h.clone(), data_h.clone());
                async move { build_response(&sc, st, data) }
            }))
        };
        let factory = HttpService::<crate::sock::ServerEnd, _, _>::build()
            .keep_alive(actix_http::KeepAlive::Os)
            .client_request_timeout(Duration::ZERO)
            .client_disconnect_timeout(Duration::ZERO)
            .finish(map_config(app(), |_| AppConfig::default()));
        let handler = factory.new_service(()).await.expect("service init");
        tokio::task::yield_now().await;
        let tape = Rc::new(RefCell::new(Tape::from_fixed(vec![], 0, true)));
        let (se, ss) = crate::sock::new_socket(crate::sock::SockPlan::default(), tape, crate::sock::Clock::new());
        let mut req = String::from("GET /x HTTP/1.1\r\nhost: sim\r\nconnection: close\r\n");
        if let Some(ae) = &sc.accept_encoding {
            req.push_str(&format!("accept-encoding: {}\r\n", ae));
        }
        req.push_str("\r\n");
        ss.st.borrow_mut().deliver(req.as_bytes());
        let cfut = handler.call((se, Protocol::Http1, None));
        let fut: Pin<Box<dyn std::future::Future<Output = ()>>> = Box::pin(async move {
            let _ = cfut.await;
        });
        let hang = drive(fut, st2.clone()).await;
        let wire = ss.st.borrow().out.clone();
        let p = crate::resp::parse_stream(&wire, &[false], true);
        let mut o = RespOut { status: 0, headers: vec![], body: vec![], hang, body_error: None, pending_fired: 0 };
        match p.resps.iter().find(|r| r.status >= 200) {
            Some(r) => {
                o.status = r.status;
                o.headers = r.headers.iter().map(|(n, v)| (n.to_ascii_lowercase(), v.clone())).collect();
                o.body = r.body.clone();
                if !r.complete {
                    o.body_error = Some("response incomplete on the wire".into());
                }
                if r.end < wire.len() {
                    o.body_error = Some(format!("{} bytes follow the response on the wire", wire.len() - r.end));
                }
            }
            None => o.body_error = Some(format!("no response could be read from the {} bytes on the wire", wire.len())),
        }
        drop(handler);
        o
    });
    o.pending_fired = st.borrow().pending_fired;
    o
}

fn run_response(sc: &RespScenario) -> RespOut {
    if sc.wire {
        return run_response_wire(sc);
    }
    let data = content(sc.len, sc.compressible);
    let chunks = split(&data, &sc.chunk_sizes);
    let st = Rc::new(RefCell::new(BodyState { chunks, k: 0, pendings: sc.pendings.clone(), waker: None, pending_fired: 0, polls_after_end: 0, done: false }));
    let sc = sc.clone();
    let st2 = st.clone();
    let out: Rc<RefCell<RespOut>> = Rc::new(RefCell::new(RespOut { status: 0, headers: vec![], body: vec![], hang: None, body_error: None, pending_fired: 0 }));
    let out2 = out.clone();
    let out3 = out.clone();
    run_sim(async move {
        let out = out3;
        let sc_h = sc.clone();
        let st_h = st2.clone();
        let data_h = data.clone();
        let app = awtest::init_service(App::new().wrap(Compress::default()).default_service(web::to(move || {
            let sc = sc_h.clone();
            let st = st_h.clone();
            let data = data_h.clone();
            async move { build_response(&sc, st, data) }
        })))
        .await;
        let mut tr = awtest::TestRequest::get().uri("/x");
        if let Some(ae) = &sc.accept_encoding {
            tr = tr.insert_header(("accept-encoding", ae.as_str()));
        }
        let req = tr.to_request();
        let fut: Pin<Box<dyn std::future::Future<Output = ()>>> = Box::pin(async move {
            let res = awtest::call_service(&app, req).await;
            {
                let mut o = out2.borrow_mut();
                o.status = res.status().as_u16();
                o.headers = res.headers().iter().map(|(n, v)| (n.as_str().to_string(), String::from_utf8_lossy(v.as_bytes()).to_string())).collect();
            }
            let body = res.into_body();
            let mut body = Box::pin(body);
            loop {
                match std::future::poll_fn(|cx| body.as_mut().poll_next(cx)).await {
                    Some(Ok(b)) => out2.borrow_mut().body.extend_from_slice(&b),
                    Some(Err(e)) => {
                        out2.borrow_mut().body_error = Some(format!("{:?}", e));
                        break;
                    }
                    None => break,
                }
            }
        });
        let hang = drive(fut, st2.clone()).await;
        out.borrow_mut().hang = hang;
    });
    let mut o = std::mem::replace(&mut *out.borrow_mut(), RespOut { status: 0, headers: vec![], body: vec![], hang: None, body_error: None, pending_fired: 0 });
    o.pending_fired = st.borrow().pending_fired;
    o
}

struct ReqOut {
    decoded: Vec<u8>,
    error: Option<String>,
    hang: Option<String>,
    pending_fired: u64,
}

fn run_request(sc: &ReqScenario) -> (ReqOut, Vec<u8>, usize) {
    let data = content(sc.len, sc.compressible);
    let mut wire = ref_encode(&sc.coding, &data);
    if let Some(t) = sc.truncate_wire {
        wire.truncate(t.min(wire.len()));
    }
    if let Some(f) = sc.flip_bit_at {
        if !wire.is_empty() {
            let i = f % wire.len();
            wire[i] ^= 1 << (f % 8);
        }
    }
    let wire_len = wire.len();
    let chunks = split(&wire, &sc.chunk_sizes);
    let st = Rc::new(RefCell::new(BodyState { chunks, k: 0, pendings: sc.pendings.clone(), waker: None, pending_fired: 0, polls_after_end: 0, done: false }));
    let st2 = st.clone();
    let coding = sc.coding.clone();
    let out: Rc<RefCell<ReqOut>> = Rc::new(RefCell::new(ReqOut { decoded: vec![], error: None, hang: None, pending_fired: 0 }));
    let out2 = out.clone();
    let out3 = out.clone();
    run_sim(async move {
        let out = out3;
        let enc: actix_web::http::header::ContentEncoding = coding.parse().unwrap_or(actix_web::http::header::ContentEncoding::Identity);
        let fut: Pin<Box<dyn std::future::Future<Output = ()>>> = Box::pin(async move {
            let mut dec = Box::pin(Decoder::new(ScriptStream(st2.clone()), enc));
            loop {
                match std::future::poll_fn(|cx| dec.as_mut().poll_next(cx)).await {
                    Some(Ok(b)) => out2.borrow_mut().decoded.extend_from_slice(&b),
                    Some(Err(e)) => {
                        out2.borrow_mut().error = Some(format!("{:?}", e));
                        break;
                    }
                    None => break,
                }
            }
        });
        let hang = drive(fut, st.clone()).await;
        out.borrow_mut().hang = hang;
        out.borrow_mut().pending_fired = st.borrow().pending_fired;
    });
    let o = std::mem::replace(&mut *out.borrow_mut(), ReqOut { decoded: vec![], error: None, hang: None, pending_fired: 0 });
    (o, data, wire_len)
}

pub struct CcRig;

const SIZES: &[usize] = &[0, 1, 10, 1023, 1024, 1025, 2048, 2049, 5000, 65_536, 200_000];

fn gen_accept(rng: &mut Rng) -> Option<String> {
    if rng.chance(1, 8) {
        return None;
    }
    let names = ["gzip", "deflate", "br", "zstd", "identity", "*", "compress", "x-foo"];
    let qs = ["", "", ";q=1", ";q=1.0", ";q=0.5", ";q=0.001", ";q=0", ";q=0.0", "; q=0.8", ";Q=0.3"];
    let n = rng.range(0, 4);
    let items: Vec<String> = (0..n).map(|_| format!("{}{}", rng.pick(&names), rng.pick(&qs))).collect();
    Some(items.join(if rng.chance(1, 2) { ", " } else { "," }))
}

impl Rig for CcRig {
    type Sc = CcScenario;
    fn property(&self) -> &'static str {
        "C13"
    }
    fn rig_name(&self) -> &'static str {
        "CC"
    }
    fn runs(&self, tier: Tier) -> u64 {
        match tier {
            Tier::Quick => 30_000,
            Tier::Thorough => 6_000_000,
        }
    }
    fn gen(&self, rng: &mut Rng, idx: u64, _tier: Tier) -> CcScenario {
        let nsz = rng.range(0, 3);
        let chunk_sizes: Vec<usize> = (0..nsz).map(|_| *rng.pick(&[1usize, 7, 100, 1023, 1024, 1025, 4096, 100_000])).collect();
        let pendings: Vec<u8> = (0..rng.range(0, 4)).map(|_| if rng.chance(1, 3) { rng.range(1, 2) as u8 } else { 0 }).collect();
        if idx % 4 == 3 {
            let coding = (*rng.pick(&["gzip", "deflate", "br", "zstd", "identity"])).to_string();
            let len = *rng.pick(SIZES);
            let mut r = ReqScenario { coding, len, compressible: rng.chance(1, 2), chunk_sizes, pendings, truncate_wire: None, flip_bit_at: None };
            match rng.below(8) {
                0 if r.coding != "identity" => {
                    let w = ref_encode(&r.coding, &content(r.len, r.compressible)).len();
                    r.truncate_wire = Some(rng.range(0, w.saturating_sub(1)));
                }
                1 if r.coding != "identity" => r.flip_bit_at = Some(rng.below(1 << 20) as usize),
                _ => {}
            }
            return CcScenario::Request(r);
        }
        let status = *rng.pick(&[200u16, 200, 200, 201, 404, 204, 206, 304, 101]);
        let body = match rng.below(6) {
            0 => BodyKind::Empty,
            1 | 2 => BodyKind::Full,
            3 | 4 => BodyKind::Stream,
            _ => BodyKind::SizedStream,
        };
        CcScenario::Response(RespScenario {
            accept_encoding: gen_accept(rng),
            status,
            body,
            len: *rng.pick(SIZES),
            compressible: rng.chance(2, 3),
            chunk_sizes,
            pendings,
            preset_content_encoding: if rng.chance(1, 8) { Some((*rng.pick(&["gzip", "br", "identity"])).to_string()) } else { None },
            content_type: match rng.below(6) {
                0 => Some("image/png".into()),
                1 => Some("text/plain".into()),
                2 => Some("image/svg+xml".into()),
                3 => Some("video/mp4".into()),
                _ => None,
            },
            user_content_length: rng.chance(1, 8),
            // statuses whose framing on the wire is special (no body / upgrade) stay in-process
            wire: !matches!(status, 101 | 204 | 304) && rng.chance(1, 2),
            no_chunking: rng.chance(1, 6),
        })
    }

    fn run(&self, sc: &CcScenario, _tape: Tape, narrative: bool) -> RunReport {
        let mut vs = Vec::new();
        let mut stats: std::collections::BTreeMap<&'static str, u64> = Default::default();
        let mut narr = Vec::new();
        let mut h: u64 = 0xcbf29ce484222325;
        let nontrivial;
        let js = serde_json::to_string(sc).unwrap_or_default();
        for b in js.bytes() {
            h = (h ^ b as u64).wrapping_mul(0x100000001b3);
        }
        match sc {
            CcScenario::Response(r) => {
                let o = run_response(r);
                let data = content(r.len, r.compressible);
                let hdr = |n: &str| o.headers.iter().find(|(k, _)| k == n).map(|(_, v)| v.clone());
                let ce = hdr("content-encoding");
                let has_body = r.body != BodyKind::Empty && r.len > 0;
                nontrivial = has_body && (o.pending_fired > 0 || r.chunk_sizes.len() > 0);
                stats.insert("body_pending", o.pending_fired);
                if let Some(hg) = &o.hang {
                    vs.push(Violation::new("C13.lossless", "body-never-ends", format!("{} (status {}, content-encoding {:?}, {} bytes collected of a {}-byte body)", hg, o.status, ce, o.body.len(), data.len())));
                } else if let Some(e) = &o.body_error {
                    vs.push(Violation::new("C13.lossless", "body-error", format!("encoder body failed: {}", e)));
                } else if o.status == 406 {
                    *stats.entry("not_acceptable_406").or_insert(0) += 1;
                } else if o.status == r.status {
                    // an empty body is only known to be empty when its size says so
                    let known_empty = r.body == BodyKind::Empty || (r.len == 0 && r.body != BodyKind::Stream);
                    let passthrough_expected = r.preset_content_encoding.is_some() || matches!(r.status, 101 | 204 | 206) || known_empty;
                    let want: Vec<u8> = if has_body { data.clone() } else { vec![] };
                    if passthrough_expected {
                        if o.body != want {
                            vs.push(Violation::new("C13.passthrough", format!("body-changed:status={}:preset={}", r.status, r.preset_content_encoding.is_some()), format!("body of {} bytes delivered as {} bytes although it must pass through unchanged", want.len(), o.body.len())));
                        }
                        if ce != r.preset_content_encoding {
                            vs.push(Violation::new("C13.passthrough", "relabelled", format!("content-encoding {:?}, handler set {:?} (status {})", ce, r.preset_content_encoding, r.status)));
                        }
                        *stats.entry("passthrough").or_insert(0) += 1;
                    } else {
                        let coding = ce.clone().unwrap_or_else(|| "identity".into()).to_ascii_lowercase();
                        match ref_decode(&coding, &o.body) {
                            Ok(dec) => {
                                if dec != want {
                                    vs.push(Violation::new("C13.lossless", format!("decoded-differs:{}", coding), format!("decoding the {}-byte {} body gives {} bytes, the handler produced {} (chunks {:?})", o.body.len(), coding, dec.len(), want.len(), &r.chunk_sizes)));
                                }
                            }
                            Err(e) => vs.push(Violation::new("C13.lossless", format!("undecodable:{}", coding), format!("reference decoder failed on the {}-byte {} body: {}", o.body.len(), coding, e))),
                        }
                        if !acceptable(r.accept_encoding.as_deref(), &coding) {
                            let excluded_type = r.content_type.as_deref().map(|c| (c.starts_with("image/") && !c.contains("svg")) || c.starts_with("video/")).unwrap_or(false);
                            vs.push(Violation::new("C13.negotiated", if coding == "identity" && excluded_type { "chose-identity:content-type-excluded-from-compression".to_string() } else { format!("chose-{}", coding) }, format!("response encoded as {} although Accept-Encoding {:?} does not permit it", coding, r.accept_encoding)));
                        }
                        if coding != "identity" {
                            *stats.entry("encoded_response").or_insert(0) += 1;
                            // (a Content-Length the handler set itself stays in the header map at this
                            // level; whether it reaches the wire is decided by the HTTP/1 and HTTP/2
                            // encoders and judged by their rigs)
                            if let Some(cl) = hdr("content-length").filter(|_| r.wire || !(r.user_content_length || r.no_chunking)) {
                                if cl.parse::<usize>().ok() != Some(o.body.len()) {
                                    vs.push(Violation::new("C13.no-stale-length", coding.clone(), format!("compressed response carries content-length {} but its body has {} bytes", cl, o.body.len())));
                                }
                            }
                        }
                    }
                }
                if narrative {
                    narr.push(format!("response scenario {:?}", r));
                    narr.push(format!("-> status {} headers {:?} body {} bytes hang {:?}", o.status, o.headers, o.body.len(), o.hang));
                }
            }
            CcScenario::Request(r) => {
                let (o, data, wire_len) = run_request(r);
                nontrivial = r.len > 0 && (o.pending_fired > 0 || !r.chunk_sizes.is_empty());
                stats.insert("body_pending", o.pending_fired);
                let fault = r.truncate_wire.is_some() || r.flip_bit_at.is_some();
                if let Some(hg) = &o.hang {
                    vs.push(Violation::new("C13.request-decoded", "decoder-never-ends", hg.clone()));
                } else if !fault {
                    *stats.entry("request_decoded").or_insert(0) += 1;
                    if o.error.is_some() || o.decoded != data {
                        vs.push(Violation::new("C13.request-decoded", format!("differs:{}", r.coding), format!("{} bytes sent as {} ({} wire bytes, chunks {:?}): decoder produced {} bytes, error {:?}", data.len(), r.coding, wire_len, &r.chunk_sizes, o.decoded.len(), o.error)));
                    }
                } else {
                    *stats.entry("request_fault").or_insert(0) += 1;
                    // a corrupted stream may by chance still decode to the right bytes; what must not
                    // happen is a clean end with different (in particular shorter) content
                    // (brotli and zstd frames carry no checksum: a flipped bit that still parses cannot be
                    // detected by any decoder, so only truncation is judged)
                    if o.error.is_none() && o.decoded != data && r.truncate_wire.is_some() {
                        let kind = "truncated";
                        vs.push(Violation::new("C13.request-decoded", format!("short-success-after-{}-{}", kind, r.coding), format!("{} {} stream ({} wire bytes): decoder ended cleanly with {} of {} bytes", kind, r.coding, wire_len, o.decoded.len(), data.len())));
                    }
                }
                if narrative {
                    narr.push(format!("request scenario {:?} -> decoded {} bytes error {:?} hang {:?}", r, o.decoded.len(), o.error, o.hang));
                }
            }
        }
        RunReport { violations: vs, trace_hash: h, stats, nontrivial, states: vec![], sim_ms: 0, steps: 0, tape: vec![], narrative: narr }
    }

    fn nontrivial_rule(&self) -> &'static str {
        "a run is one response through App::wrap(Compress) (status, body kind and size around the 1 KiB/2 KiB thresholds, chunking with Pending, Accept-Encoding from a grammar, pre-set headers) or one request body through encoding::Decoder (coding, chunking, optional truncation/bit flip); non-trivial = a non-empty body delivered in more than one chunk or with a Pending actually returned; distinct = distinct scenario"
    }
    fn real_components(&self) -> Vec<&'static str> {
        vec!["actix_web::middleware::Compress", "AcceptEncoding::negotiate", "actix_http::encoding::Encoder (in-place and spawn_blocking paths, finish on end of body)", "actix_http::encoding::Decoder"]
    }
    fn stub_components(&self) -> Vec<&'static str> {
        vec!["handler and scripted response bodies / request body stream", "wake-driven executor on the paused clock", "flate2 / brotli / zstd used directly as reference decoders and encoders", "independent RFC 7231 §5.3.4 acceptability evaluator"]
    }
    fn assumptions(&self) -> Vec<&'static str> {
        vec!["a 406 answer is not judged (the property constrains what is chosen, not when the server gives up)", "which acceptable coding is preferred is not judged", "on-the-wire framing of compressed responses is judged by C02/C08 rigs' framing oracles, not here"]
    }
    fn expected_probes(&self) -> Vec<&'static str> {
        vec!["body_pending", "encoded_response", "passthrough", "request_decoded", "request_fault", "not_acceptable_406"]
    }
}
