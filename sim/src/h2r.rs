//! Rig H2 (C08): the real `HttpService` HTTP/2 path (h2 handshake, h2::Dispatcher, handle_response,
//! prepare_response, h2::Payload) against the h2 crate's client endpoint over a simulated duplex
//! pipe. The simulator decides how bytes move in each direction, when each client stream reads
//! (and thereby releases flow-control window), which streams are stalled or reset, and when
//! response bodies yield.

use std::{
    cell::RefCell,
    collections::BTreeMap,
    io,
    pin::Pin,
    rc::Rc,
    task::{Context, Poll},
    time::Duration,
};

use actix_http::{
    body::{BodySize, BoxBody, MessageBody},
    HttpService, KeepAlive, Protocol, Request, Response, StatusCode,
};
use actix_service::{fn_service, Service, ServiceFactory};
use bytes::Bytes;
use serde::{Deserialize, Serialize};

use crate::{
    batch::{Rig, RunReport, Tier, Violation},
    exec::{gate::Gates, run_sim, Exec, Idle},
    rng::{Rng, Tape},
    sock::{new_socket, Clock, ServerEnd, SockPlan},
};

#[derive(Clone, Debug, Serialize, Deserialize, PartialEq, Eq)]
pub enum BodyKind {
    /// `body::None`
    NoneBody,
    /// one `Bytes` of this length (BodySize::Sized)
    Whole(usize),
    /// known total length, delivered in chunks
    Sized(Vec<usize>),
    /// unknown length (BodySize::Stream)
    Stream(Vec<usize>),
}

#[derive(Clone, Copy, Debug, Serialize, Deserialize, PartialEq, Eq)]
pub enum Policy {
    /// read as fast as data arrives
    Immediate,
    /// read one chunk per grant handed out by the simulator
    Granted,
    /// do not read at all until every other stream has finished
    Stalled,
    /// read this many chunks, then drop the stream (RST_STREAM)
    ResetAfter(usize),
}

#[derive(Clone, Debug, Serialize, Deserialize)]
pub struct H2Req {
    pub head_method: bool,
    pub status: u16,
    pub body: BodyKind,
    /// Pending (with self-wake) before each chunk
    pub yields: bool,
    /// the body yields an error instead of its chunk number k
    pub fail_at: Option<usize>,
    /// the handler sets HTTP/1-only headers
    pub hop_headers: bool,
    pub policy: Policy,
}

#[derive(Clone, Debug, Serialize, Deserialize)]
pub struct H2Scenario {
    pub stream_window: u32,
    pub conn_window: u32,
    pub max_frame: u32,
    pub reqs: Vec<H2Req>,
    /// largest number of bytes moved across the pipe per simulator step
    pub seg_cap: u32,
    /// the client vanishes (connection reset, all its tasks gone) at this simulator step
    #[serde(default)]
    pub drop_conn_at: Option<u64>,
}

fn chunk_sizes(b: &BodyKind) -> Vec<usize> {
    match b {
        BodyKind::NoneBody => vec![],
        BodyKind::Whole(n) => vec![*n],
        BodyKind::Sized(c) | BodyKind::Stream(c) => c.clone(),
    }
}

fn body_bytes(id: usize, n: usize, off: usize) -> Vec<u8> {
    (off..off + n).map(|j| b'A' + ((id * 5 + j * 3 + j / 17) % 26) as u8).collect()
}

struct ScriptBody {
    id: usize,
    chunks: Vec<usize>,
    next: usize,
    off: usize,
    size: BodySize,
    yields: bool,
    yielded: bool,
    fail_at: Option<usize>,
    pulled: Rc<RefCell<BTreeMap<usize, usize>>>,
}

impl MessageBody for ScriptBody {
    type Error = io::Error;
    fn size(&self) -> BodySize {
        self.size
    }
    fn poll_next(mut self: Pin<&mut Self>, cx: &mut Context<'_>) -> Poll<Option<Result<Bytes, io::Error>>> {
        if self.yields && !self.yielded {
            self.yielded = true;
            cx.waker().wake_by_ref();
            return Poll::Pending;
        }
        self.yielded = false;
        if self.fail_at == Some(self.next) {
            self.next = usize::MAX;
            return Poll::Ready(Some(Err(io::Error::new(io::ErrorKind::Other, "scripted body failure"))));
        }
        if self.next >= self.chunks.len() {
            return Poll::Ready(None);
        }
        let n = self.chunks[self.next];
        let b = body_bytes(self.id, n, self.off);
        self.off += n;
        self.next += 1;
        *self.pulled.borrow_mut().entry(self.id).or_insert(0) += n;
        Poll::Ready(Some(Ok(Bytes::from(b))))
    }
}

#[derive(Clone, Debug, Default)]
struct StreamOut {
    started: bool,
    finished: bool,
    status: Option<u16>,
    headers: Vec<(String, String)>,
    data: Vec<u8>,
    chunks: usize,
    clean_end: bool,
    err: Option<String>,
    reset_by_client: bool,
}

#[derive(Default)]
struct Out {
    streams: Vec<StreamOut>,
    steps: u64,
    stuck: Option<String>,
    blocked_by_stalled: Option<String>,
    tape: Vec<u32>,
    stats: BTreeMap<&'static str, u64>,
    log: Vec<String>,
    conn_err: Option<String>,
    handler_calls: usize,
    dropped_mid_run: bool,
}

async fn run_world(sc: H2Scenario, tape: Tape, narrative: bool) -> Out {
    let tape = Rc::new(RefCell::new(tape));
    let clock = Clock::new();
    let n = sc.reqs.len();
    let pulled: Rc<RefCell<BTreeMap<usize, usize>>> = Rc::new(RefCell::new(BTreeMap::new()));
    let calls = Rc::new(RefCell::new(0usize));
    let reqs = Rc::new(sc.reqs.clone());
    let (pulled2, calls2, reqs2) = (pulled.clone(), calls.clone(), reqs.clone());
    let svc = fn_service(move |req: Request| {
        let (pulled, calls, reqs) = (pulled2.clone(), calls2.clone(), reqs2.clone());
        async move {
            *calls.borrow_mut() += 1;
            let id: usize = req.path().trim_start_matches("/r").parse().unwrap_or(usize::MAX);
            if id >= reqs.len() {
                return Ok::<_, std::convert::Infallible>(Response::new(StatusCode::NOT_FOUND).map_into_boxed_body());
            }
            let r = &reqs[id];
            let mut res = Response::build(StatusCode::from_u16(r.status).unwrap());
            res.insert_header(("x-id", id.to_string()));
            if r.hop_headers {
                res.insert_header(("connection", "keep-alive"));
                res.insert_header(("keep-alive", "timeout=5"));
                res.insert_header(("transfer-encoding", "chunked"));
                res.insert_header(("proxy-connection", "keep-alive"));
                res.insert_header(("upgrade", "foo"));
            }
            let chunks = chunk_sizes(&r.body);
            let total: usize = chunks.iter().sum();
            let size = match r.body {
                BodyKind::NoneBody => BodySize::None,
                BodyKind::Whole(_) | BodyKind::Sized(_) => BodySize::Sized(total as u64),
                BodyKind::Stream(_) => BodySize::Stream,
            };
            let body = ScriptBody { id, chunks, next: 0, off: 0, size, yields: r.yields, yielded: false, fail_at: r.fail_at, pulled };
            Ok(res.message_body(BoxBody::new(body)).unwrap())
        }
    });
    let factory = HttpService::<ServerEnd, _, BoxBody>::build()
        .keep_alive(KeepAlive::Disabled)
        .client_request_timeout(Duration::ZERO)
        .client_disconnect_timeout(Duration::ZERO)
        .finish(svc);
    let handler = factory.new_service(()).await.expect("service init");
    tokio::task::yield_now().await;

    // an endpoint that writes without end (far beyond anything the scenario can produce) gets a
    // write error instead of the simulator's memory
    let plan = SockPlan { write_err_at: Some(6 << 20), ..SockPlan::default() };
    let (srv_end, srv_peer) = new_socket(plan.clone(), tape.clone(), clock.clone());
    let (cli_end, cli_peer) = new_socket(plan, tape.clone(), clock.clone());
    let mut ex = Exec::new();
    let conn_fut = handler.call((srv_end, Protocol::Http2, None));
    let t_server = ex.spawn("server-conn", async move {
        let _ = conn_fut.await;
    });
    let mut client_tasks: Vec<usize> = Vec::new();
    let outs: Rc<RefCell<Vec<StreamOut>>> = Rc::new(RefCell::new(vec![StreamOut::default(); n]));
    let conn_err: Rc<RefCell<Option<String>>> = Rc::new(RefCell::new(None));
    let gates = Gates::new(2 * n + 4);
    // grants: per stream, number of chunk reads allowed
    let grants: Rc<RefCell<Vec<usize>>> = Rc::new(RefCell::new(vec![0; n]));
    let grant_wakers: Rc<RefCell<Vec<Option<std::task::Waker>>>> = Rc::new(RefCell::new(vec![None; n]));
    let send_req: Rc<RefCell<Option<h2::client::SendRequest<Bytes>>>> = Rc::new(RefCell::new(None));
    {
        // client connection task: handshake, then drive the connection
        let send_req = send_req.clone();
        let conn_err = conn_err.clone();
        let gates = gates.clone();
        let (sw, cw, mf) = (sc.stream_window, sc.conn_window, sc.max_frame);
        let ready_gate = 2 * n;
        let t = ex.spawn("client-conn", async move {
            let mut b = h2::client::Builder::new();
            b.initial_window_size(sw).initial_connection_window_size(cw).max_frame_size(mf);
            match b.handshake::<_, Bytes>(cli_end).await {
                Ok((sr, conn)) => {
                    *send_req.borrow_mut() = Some(sr);
                    gates.open(ready_gate);
                    if let Err(e) = conn.await {
                        *conn_err.borrow_mut() = Some(format!("{:?}", e));
                    }
                }
                Err(e) => {
                    *conn_err.borrow_mut() = Some(format!("handshake: {:?}", e));
                    gates.open(ready_gate);
                }
            }
        });
        client_tasks.push(t);
    }
    for (i, r) in sc.reqs.iter().enumerate() {
        let outs = outs.clone();
        let gates = gates.clone();
        let send_req = send_req.clone();
        let grants = grants.clone();
        let grant_wakers = grant_wakers.clone();
        let r = r.clone();
        let ready_gate = 2 * n;
        let t_stream = ex.spawn(&format!("stream-{}", i), async move {
            gates.wait(ready_gate).await;
            gates.wait(i).await;
            outs.borrow_mut()[i].started = true;
            let sr = match send_req.borrow().clone() {
                Some(s) => s,
                None => {
                    outs.borrow_mut()[i].err = Some("no connection".into());
                    outs.borrow_mut()[i].finished = true;
                    return;
                }
            };
            let mut sr = match sr.ready().await {
                Ok(s) => s,
                Err(e) => {
                    outs.borrow_mut()[i].err = Some(format!("ready: {:?}", e));
                    outs.borrow_mut()[i].finished = true;
                    return;
                }
            };
            let req = http::Request::builder().method(if r.head_method { "HEAD" } else { "GET" }).uri(format!("http://sim.test/r{}", i)).body(()).unwrap();
            let (rf, _ss) = match sr.send_request(req, true) {
                Ok(x) => x,
                Err(e) => {
                    outs.borrow_mut()[i].err = Some(format!("send_request: {:?}", e));
                    outs.borrow_mut()[i].finished = true;
                    return;
                }
            };
            drop(sr);
            let resp = match rf.await {
                Ok(r) => r,
                Err(e) => {
                    outs.borrow_mut()[i].err = Some(format!("response: {:?}", e));
                    outs.borrow_mut()[i].finished = true;
                    return;
                }
            };
            {
                let mut o = outs.borrow_mut();
                o[i].status = Some(resp.status().as_u16());
                o[i].headers = resp.headers().iter().map(|(k, v)| (k.as_str().to_string(), String::from_utf8_lossy(v.as_bytes()).to_string())).collect();
            }
            let mut body = resp.into_body();
            loop {
                // wait for permission to read according to the policy
                match r.policy {
                    Policy::Immediate => {}
                    Policy::ResetAfter(k) => {
                        if outs.borrow()[i].chunks >= k {
                            outs.borrow_mut()[i].reset_by_client = true;
                            drop(body);
                            break;
                        }
                    }
                    Policy::Granted | Policy::Stalled => {
                        let (g, gw) = (grants.clone(), grant_wakers.clone());
                        std::future::poll_fn(move |cx| {
                            let mut g = g.borrow_mut();
                            if g[i] > 0 {
                                g[i] -= 1;
                                Poll::Ready(())
                            } else {
                                gw.borrow_mut()[i] = Some(cx.waker().clone());
                                Poll::Pending
                            }
                        })
                        .await;
                    }
                }
                match body.data().await {
                    Some(Ok(b)) => {
                        let _ = body.flow_control().release_capacity(b.len());
                        let mut o = outs.borrow_mut();
                        o[i].data.extend_from_slice(&b);
                        o[i].chunks += 1;
                    }
                    Some(Err(e)) => {
                        outs.borrow_mut()[i].err = Some(format!("data: {:?}", e));
                        break;
                    }
                    None => {
                        outs.borrow_mut()[i].clean_end = true;
                        break;
                    }
                }
            }
            outs.borrow_mut()[i].finished = true;
        });
        client_tasks.push(t_stream);
    }
    let mut out = Out::default();
    let mut started = vec![false; n];
    let (mut cur_s2c, mut cur_c2s) = (0usize, 0usize);
    let mut stalled_released = false;
    let mut settle = 0u32;
    let is_stalled = |i: usize| sc.reqs[i].policy == Policy::Stalled;
    loop {
        out.steps += 1;
        if out.steps > 250_000 {
            out.stuck = Some("step budget exhausted".into());
            break;
        }
        // response tasks are spawned on the runtime by the dispatcher (actix_rt::spawn): let them run
        tokio::task::yield_now().await;
        if sc.drop_conn_at == Some(out.steps) {
            out.dropped_mid_run = true;
            *out.stats.entry("client_vanished_mid_run").or_insert(0) += 1;
            break;
        }
        #[derive(Clone, Copy)]
        enum A {
            Run(usize),
            Start(usize),
            S2C,
            C2S,
            Grant(usize),
        }
        let mut acts: Vec<A> = Vec::new();
        for t in ex.runnable() {
            acts.push(A::Run(t));
        }
        for i in 0..n {
            if !started[i] {
                acts.push(A::Start(i));
            }
        }
        if srv_peer.st.borrow().out.len() > cur_s2c {
            acts.push(A::S2C);
        }
        if cli_peer.st.borrow().out.len() > cur_c2s {
            acts.push(A::C2S);
        }
        for i in 0..n {
            let o = &outs.borrow()[i];
            let want = match sc.reqs[i].policy {
                Policy::Granted => true,
                Policy::Stalled => stalled_released,
                _ => false,
            };
            if want && o.started && !o.finished && grants.borrow()[i] == 0 && grant_wakers.borrow()[i].is_some() {
                acts.push(A::Grant(i));
            }
        }
        if acts.is_empty() {
            // quiescent only if a few more turns of the runtime change nothing
            settle += 1;
            if settle < 4 {
                continue;
            }
            let all_done = outs.borrow().iter().all(|o| o.finished);
            if all_done {
                break;
            }
            let others_done = (0..n).all(|i| is_stalled(i) || outs.borrow()[i].finished);
            if !stalled_released && (0..n).any(|i| is_stalled(i)) {
                if !others_done {
                    let who: Vec<usize> = (0..n).filter(|i| !is_stalled(*i) && !outs.borrow()[*i].finished).collect();
                    out.blocked_by_stalled = Some(format!("streams {:?} cannot finish while other streams are not being read", who));
                }
                // faults stop: the stalled streams are read from now on
                stalled_released = true;
                if narrative {
                    out.log.push(format!("QUIESCENT with stalled streams held; unfinished: {:?}", (0..n).filter(|i| !outs.borrow()[*i].finished).collect::<Vec<_>>()));
                }
                *out.stats.entry("stalled_streams_released").or_insert(0) += 1;
                continue;
            }
            let dl = ex.now() + Duration::from_secs(5);
            if ex.idle_until(dl).await == Idle::Deadline {
                let who: Vec<usize> = (0..n).filter(|i| !outs.borrow()[*i].finished).collect();
                out.stuck = Some(format!("streams {:?} never finish although every window has been released and all bytes delivered", who));
                break;
            }
            continue;
        }
        settle = 0;
        let k = if acts.len() == 1 { 0 } else { tape.borrow_mut().draw(acts.len() as u32) as usize };
        clock.tick();
        if narrative {
            let d = match acts[k] {
                A::Run(t) => format!("run task {}", t),
                A::Start(i) => format!("start stream {}", i),
                A::S2C => "bytes server->client".to_string(),
                A::C2S => "bytes client->server".to_string(),
                A::Grant(i) => format!("grant one read to stream {}", i),
            };
            out.log.push(d);
        }
        match acts[k] {
            A::Run(t) => {
                ex.poll_task(t);
            }
            A::Start(i) => {
                started[i] = true;
                gates.open(i);
            }
            A::S2C => {
                let avail = srv_peer.st.borrow().out.len() - cur_s2c;
                let nbytes = seg(&tape, avail, sc.seg_cap);
                let seg: Vec<u8> = srv_peer.st.borrow().out[cur_s2c..cur_s2c + nbytes].to_vec();
                cur_s2c += nbytes;
                cli_peer.st.borrow_mut().deliver(&seg);
                *out.stats.entry("segments_s2c").or_insert(0) += 1;
            }
            A::C2S => {
                let avail = cli_peer.st.borrow().out.len() - cur_c2s;
                let nbytes = seg(&tape, avail, sc.seg_cap);
                let seg: Vec<u8> = cli_peer.st.borrow().out[cur_c2s..cur_c2s + nbytes].to_vec();
                cur_c2s += nbytes;
                srv_peer.st.borrow_mut().deliver(&seg);
                *out.stats.entry("segments_c2s").or_insert(0) += 1;
            }
            A::Grant(i) => {
                grants.borrow_mut()[i] += 1;
                if let Some(w) = grant_wakers.borrow_mut()[i].take() {
                    w.wake();
                }
                *out.stats.entry("reads_granted").or_insert(0) += 1;
            }
        }
    }
    // teardown: the client goes away — reset in the middle of everything, or an orderly end of
    // stream once all its streams are done. The server's connection future must then finish.
    if out.stuck.is_none() {
        for t in &client_tasks {
            ex.cancel(*t);
        }
        if out.dropped_mid_run {
            srv_peer.st.borrow_mut().reset_conn();
        } else {
            srv_peer.st.borrow_mut().half_close();
        }
        srv_peer.st.borrow_mut().fire_read_wake();
        let mut guard = 0u32;
        loop {
            guard += 1;
            if guard > 100_000 {
                out.stuck = Some("server connection keeps being woken without finishing after the peer went away".into());
                break;
            }
            tokio::task::yield_now().await;
            if !ex.unfinished().contains(&t_server) {
                break;
            }
            let runnable = ex.runnable();
            if !runnable.is_empty() {
                for r in runnable {
                    ex.poll_task(r);
                }
                continue;
            }
            let dl = ex.now() + Duration::from_secs(5);
            if ex.idle_until(dl).await == Idle::Deadline {
                out.stuck = Some(format!("server connection task never finishes after the peer {}", if out.dropped_mid_run { "reset the connection" } else { "closed its side" }));
                break;
            }
        }
    }
    out.streams = outs.borrow().clone();
    out.conn_err = conn_err.borrow().clone();
    out.handler_calls = *calls.borrow();
    out.tape = tape.borrow().record.clone();
    let _ = t_server;
    drop(ex);
    drop(handler);
    out
}

fn seg(tape: &Rc<RefCell<Tape>>, avail: usize, cap: u32) -> usize {
    let mode = tape.borrow_mut().draw(4);
    let n = match mode {
        0 => 1 + tape.borrow_mut().draw(9) as usize,
        1 => 1 + tape.borrow_mut().draw(cap.max(1)) as usize,
        _ => avail,
    };
    n.min(avail).max(1)
}

pub struct H2Rig;

fn gen_chunks(rng: &mut Rng, window: u32) -> Vec<usize> {
    let k = rng.range(0, 6);
    if window < 1000 {
        // every window's worth of data costs a full round trip of simulator steps: keep bodies small
        let w = window as usize;
        return (0..k).map(|_| *rng.pick(&[0usize, 1, w, w + 1, 3 * w + 2, 10 * w + 1])).collect();
    }
    (0..k)
        .map(|_| match rng.below(8) {
            0 => 0,
            1 => 1,
            2 => window as usize,
            3 => window as usize + 1,
            4 => rng.range(1, 200),
            5 => rng.range(1000, 20_000),
            6 => 16_384 * rng.range(1, 4) + rng.range(0, 3),
            _ => rng.range(30_000, 90_000),
        })
        .collect()
}

impl Rig for H2Rig {
    type Sc = H2Scenario;
    fn property(&self) -> &'static str {
        "C08"
    }
    fn rig_name(&self) -> &'static str {
        "H2"
    }
    fn runs(&self, tier: Tier) -> u64 {
        match tier {
            Tier::Quick => 60_000,
            Tier::Thorough => 20_000_000,
        }
    }
    fn gen(&self, rng: &mut Rng, _idx: u64, _tier: Tier) -> H2Scenario {
        let stream_window = *rng.pick(&[1u32, 7, 100, 1000, 16_384, 65_535, 200_000]);
        let n = rng.range(1, 6);
        let reqs = (0..n)
            .map(|_| {
                let body = match rng.below(8) {
                    0 => BodyKind::NoneBody,
                    1 | 2 => BodyKind::Whole(if stream_window < 1000 { *rng.pick(&[0usize, 1, 100, 1500]) } else { *rng.pick(&[0usize, 1, 100, 20_000, 70_000]) }),
                    3 | 4 => BodyKind::Sized(gen_chunks(rng, stream_window)),
                    _ => BodyKind::Stream(gen_chunks(rng, stream_window)),
                };
                let nchunks = chunk_sizes(&body).len();
                H2Req {
                    head_method: rng.chance(1, 8),
                    status: *rng.pick(&[200u16, 200, 200, 200, 404, 204, 304]),
                    yields: rng.chance(1, 3),
                    fail_at: if nchunks > 0 && rng.chance(1, 10) { Some(rng.usize(nchunks + 1)) } else { None },
                    hop_headers: rng.chance(1, 4),
                    policy: match rng.below(10) {
                        0..=3 => Policy::Immediate,
                        4..=6 => Policy::Granted,
                        7 => Policy::Stalled,
                        _ => Policy::ResetAfter(rng.usize(3)),
                    },
                    body,
                }
            })
            .collect();
        H2Scenario {
            stream_window,
            // large enough that stalled streams cannot exhaust the connection window
            conn_window: 8 * 1024 * 1024,
            max_frame: *rng.pick(&[16_384u32, 16_384, 32_768, 100_000]),
            reqs,
            seg_cap: *rng.pick(&[64u32, 1000, 20_000]),
            drop_conn_at: if rng.chance(1, 6) { Some(*rng.pick(&[5u64, 30, 60, 100, 200, 400, 1000, 3000])) } else { None },
        }
    }

    fn shrink(&self, sc: &H2Scenario) -> Vec<H2Scenario> {
        let mut v = Vec::new();
        if sc.reqs.len() > 1 {
            let mut c = sc.clone();
            c.reqs.pop();
            v.push(c);
            let mut c = sc.clone();
            c.reqs.remove(0);
            v.push(c);
        }
        for i in 0..sc.reqs.len() {
            let r = &sc.reqs[i];
            if r.yields {
                let mut c = sc.clone();
                c.reqs[i].yields = false;
                v.push(c);
            }
            if r.hop_headers {
                let mut c = sc.clone();
                c.reqs[i].hop_headers = false;
                v.push(c);
            }
            if r.policy != Policy::Immediate {
                let mut c = sc.clone();
                c.reqs[i].policy = Policy::Immediate;
                v.push(c);
            }
            if let BodyKind::Sized(ch) | BodyKind::Stream(ch) = &r.body {
                for j in 0..ch.len() {
                    let mut ch2 = ch.clone();
                    ch2.remove(j);
                    let mut c = sc.clone();
                    c.reqs[i].body = if matches!(r.body, BodyKind::Sized(_)) { BodyKind::Sized(ch2) } else { BodyKind::Stream(ch2) };
                    c.reqs[i].fail_at = None;
                    v.push(c);
                }
            }
        }
        v
    }

    fn run(&self, sc: &H2Scenario, tape: Tape, narrative: bool) -> RunReport {
        let sc2 = sc.clone();
        let out = run_sim(async move { run_world(sc2, tape, narrative).await });
        let mut vs = Vec::new();
        let mut stats = out.stats.clone();
        let mut narr = out.log.clone();
        if let Some(s) = &out.stuck {
            vs.push(Violation::new("C08.complete", if s.starts_with("server connection") { "server-connection-outlives-peer" } else { "hang" }, s.clone()));
        }
        if let Some(s) = &out.blocked_by_stalled {
            vs.push(Violation::new("C08.independent", "blocked-by-unread-stream", s.clone()));
        }
        if let Some(e) = &out.conn_err {
            vs.push(Violation::new("C08.complete", "connection-error", e.clone()));
        }
        for (i, r) in sc.reqs.iter().enumerate() {
            let o = &out.streams[i];
            if narrative {
                narr.push(format!("stream {}: status {:?} data {} bytes chunks {} clean_end={} err={:?} reset_by_client={} headers {:?}", i, o.status, o.data.len(), o.chunks, o.clean_end, o.err, o.reset_by_client, o.headers));
            }
            if !o.finished {
                continue;
            }
            let chunks = chunk_sizes(&r.body);
            let bodiless_status = r.status == 204 || r.status == 304;
            let want_body: Vec<u8> = if r.head_method || bodiless_status || r.body == BodyKind::NoneBody { vec![] } else { body_bytes(i, chunks.iter().sum(), 0) };
            // a body that fails: whatever it produced before the failure may arrive, a clean end must not
            let sized_zero = matches!(r.body, BodyKind::Whole(_) | BodyKind::Sized(_)) && chunks.iter().sum::<usize>() == 0;
            let fails = r.fail_at.is_some() && !r.head_method && !matches!(r.body, BodyKind::NoneBody) && !sized_zero && !bodiless_status;
            if let Some(st) = o.status {
                if st != r.status {
                    vs.push(Violation::new("C08.complete", "wrong-status", format!("stream {}: status {} received, handler sent {}", i, st, r.status)));
                }
                for (k, _) in &o.headers {
                    if ["connection", "keep-alive", "proxy-connection", "transfer-encoding", "upgrade"].contains(&k.as_str()) {
                        vs.push(Violation::new("C08.headers", format!("connection-specific:{}", k), format!("stream {}: response carries the HTTP/1-only header {}", i, k)));
                    }
                }
                let cl: Vec<&String> = o.headers.iter().filter(|(k, _)| k == "content-length").map(|(_, v)| v).collect();
                if cl.len() > 1 {
                    vs.push(Violation::new("C08.headers", "duplicate-content-length", format!("stream {}: {:?}", i, cl)));
                }
                if let Some(v) = cl.first() {
                    let declared: Option<usize> = v.parse().ok();
                    let full: usize = chunks.iter().sum();
                    let ok = if r.head_method || r.status == 304 { declared == Some(full) || declared == Some(0) && full == 0 } else { declared == Some(want_body.len()) };
                    if !ok && !fails {
                        vs.push(Violation::new("C08.headers", "content-length-mismatch", format!("stream {}: content-length {} but the body has {} bytes (HEAD {}, status {})", i, v, want_body.len(), r.head_method, r.status)));
                    }
                    if r.status == 204 {
                        vs.push(Violation::new("C08.headers", "content-length-on-204", format!("stream {}: content-length {} on a 204 response", i, v)));
                    }
                }
            }
            if bodiless_status && !o.data.is_empty() {
                vs.push(Violation::new("C08.bodiless", format!("body-octets-on-{}", r.status), format!("stream {}: {} DATA bytes received on a {} response", i, o.data.len(), r.status)));
                continue;
            }
            if o.reset_by_client {
                *stats.entry("streams_reset_by_client").or_insert(0) += 1;
                if !want_body.starts_with(&o.data) {
                    vs.push(Violation::new("C08.complete", "wrong-bytes", format!("stream {} (reset by the client after {} chunks): received bytes are not a prefix of the body", i, o.chunks)));
                }
                continue;
            }
            if bodiless_status && !o.data.is_empty() {
                vs.push(Violation::new("C08.bodiless", format!("body-octets-on-{}", r.status), format!("stream {}: {} DATA bytes received on a {} response", i, o.data.len(), r.status)));
                continue;
            }
            if !want_body.starts_with(&o.data) {
                vs.push(Violation::new("C08.complete", "wrong-bytes", format!("stream {}: the {} received bytes are not a prefix of the {} the body produced", i, o.data.len(), want_body.len())));
                continue;
            }
            if o.clean_end {
                *stats.entry("clean_ends").or_insert(0) += 1;
                if fails && o.data.len() <= want_body.len() {
                    let produced: usize = chunks.iter().take(r.fail_at.unwrap_or(0)).sum();
                    if !(bodiless_status) {
                        vs.push(Violation::new("C08.complete", "clean-end-after-body-error", format!("stream {}: the body failed after {} bytes, the client saw a clean end of stream after {} bytes", i, produced, o.data.len())));
                    }
                } else if o.data.len() != want_body.len() {
                    vs.push(Violation::new("C08.complete", format!("short-body:{}", kind_name(&r.body)), format!("stream {}: clean end after {} of {} bytes (chunks {:?}, window {}, HEAD {}, status {})", i, o.data.len(), want_body.len(), chunks, sc.stream_window, r.head_method, r.status)));
                }
            } else if let Some(e) = &o.err {
                *stats.entry("stream_errors").or_insert(0) += 1;
                if !fails {
                    vs.push(Violation::new("C08.complete", format!("error-instead-of-body:{}", kind_name(&r.body)), format!("stream {}: {} (chunks {:?}, window {}, HEAD {}, status {}, {} bytes received)", i, e, chunks, sc.stream_window, r.head_method, r.status, o.data.len())));
                }
            }
        }
        stats.insert("streams", sc.reqs.len() as u64);
        stats.insert("chunks_larger_than_window", sc.reqs.iter().map(|r| chunk_sizes(&r.body).iter().filter(|c| **c as u64 > sc.stream_window as u64).count() as u64).sum());
        stats.insert("empty_chunks", sc.reqs.iter().map(|r| chunk_sizes(&r.body).iter().filter(|c| **c == 0).count() as u64).sum());
        stats.insert("stalled_streams", sc.reqs.iter().filter(|r| r.policy == Policy::Stalled).count() as u64);
        stats.insert("failing_bodies", sc.reqs.iter().filter(|r| r.fail_at.is_some()).count() as u64);
        let mut h: u64 = 0xcbf29ce484222325;
        for b in serde_json::to_string(sc).unwrap_or_default().bytes() {
            h = (h ^ b as u64).wrapping_mul(0x100000001b3);
        }
        for t in &out.tape {
            h = (h ^ *t as u64).wrapping_mul(0x100000001b3);
        }
        for o in &out.streams {
            h = (h ^ o.data.len() as u64 ^ ((o.status.unwrap_or(0) as u64) << 32)).wrapping_mul(0x100000001b3);
        }
        RunReport {
            violations: vs,
            trace_hash: h,
            stats,
            nontrivial: out.handler_calls >= 1 && out.streams.iter().any(|o| o.finished && o.status.is_some()),
            states: vec![],
            sim_ms: 0,
            steps: out.steps,
            tape: out.tape.clone(),
            narrative: narr,
        }
    }

    fn nontrivial_rule(&self) -> &'static str {
        "a run is one HTTP/2 connection with 1–5 concurrent streams (body kinds, chunk lists with empty chunks and chunks larger than the stream window, HEAD/204/304, failing bodies, handler-set HTTP/1-only headers) under a simulator-chosen interleaving of byte movement in both directions (1 byte to everything per step), per-stream read grants (window release), stalled and reset streams and body Pending; non-trivial = the handler ran and at least one stream received a response head; distinct = distinct (scenario, decision tape, outcome)"
    }
    fn real_components(&self) -> Vec<&'static str> {
        vec!["actix_http::HttpService (h2 handshake), h2::Dispatcher, handle_response, prepare_response, h2::Payload", "h2 crate server and client endpoints (frames, HPACK, flow control)"]
    }
    fn stub_components(&self) -> Vec<&'static str> {
        vec!["duplex byte pipe between the endpoints (simulator moves the bytes)", "client stream tasks with scripted read policies", "scripted handler and response bodies", "wake-driven executor"]
    }
    fn expected_probes(&self) -> Vec<&'static str> {
        vec!["chunks_larger_than_window", "empty_chunks", "stalled_streams", "stalled_streams_released", "streams_reset_by_client", "failing_bodies", "reads_granted", "clean_ends"]
    }
}

fn kind_name(b: &BodyKind) -> &'static str {
    match b {
        BodyKind::NoneBody => "none",
        BodyKind::Whole(_) => "whole",
        BodyKind::Sized(_) => "sized",
        BodyKind::Stream(_) => "stream",
    }
}
