//! `SimSocket`: the only "network" the code under simulation sees.
//!
//! TCP semantics are kept (bytes are never reordered, duplicated or dropped inside a
//! connection); what varies is segmentation, readiness, timing and where the stream ends.

use std::{
    cell::{Cell, RefCell},
    collections::BTreeMap,
    io,
    pin::Pin,
    rc::Rc,
    task::{Context, Poll, Waker},
};

use serde::{Deserialize, Serialize};
use tokio::io::{AsyncRead, AsyncWrite, ReadBuf};

use crate::rng::Tape;

#[derive(Clone, Copy, Debug, Serialize, Deserialize, PartialEq, Eq)]
pub enum CapMode {
    Full,
    Byte1,
    /// random in 1..=max, drawn from the tape per call
    Rand(u32),
}

#[derive(Clone, Copy, Debug, Serialize, Deserialize, PartialEq, Eq)]
pub enum ShutPlan {
    Ready,
    /// Pending until `ms` after the first poll_shutdown
    PendingMs(u32),
    PendingForever,
    Err,
}

#[derive(Clone, Copy, Debug, Serialize, Deserialize, PartialEq, Eq)]
pub enum ReadErrKind {
    Reset,
    Other,
}

#[derive(Clone, Debug, Serialize, Deserialize)]
pub struct SockPlan {
    pub read_mode: CapMode,
    /// per-mille probability that a poll_read with data available returns Pending (followed by a
    /// scheduled wake) instead
    pub spurious_read_pm: u32,
    /// of those, deliver `Err(WouldBlock)` instead of `Pending` with this per-mille probability
    pub wouldblock_pm: u32,
    pub max_spurious: u32,
    pub write_mode: CapMode,
    /// false: the write side starts with unlimited capacity; true: capacity only through grants
    pub gated_writes: bool,
    pub flush_pending_pm: u32,
    pub max_flush_pending: u32,
    pub shutdown: ShutPlan,
    pub write_err_at: Option<usize>,
    pub write_zero_at: Option<usize>,
    /// after this many bytes have been read, poll_read fails
    pub read_err_at: Option<(usize, ReadErrKind)>,
    /// buffering transport (TLS / BufWriter-like): bytes accepted by poll_write reach the wire
    /// only when poll_flush (or poll_shutdown) completes
    #[serde(default)]
    pub buffered: bool,
}

impl Default for SockPlan {
    fn default() -> Self {
        SockPlan {
            read_mode: CapMode::Full,
            spurious_read_pm: 0,
            wouldblock_pm: 0,
            max_spurious: 0,
            write_mode: CapMode::Full,
            gated_writes: false,
            flush_pending_pm: 0,
            max_flush_pending: 0,
            shutdown: ShutPlan::Ready,
            write_err_at: None,
            write_zero_at: None,
            read_err_at: None,
            buffered: false,
        }
    }
}

#[derive(Clone, Copy, Debug)]
pub struct Mark {
    pub off: usize,
    pub len: usize,
    pub ms: u64,
    pub step: u64,
}

#[derive(Clone)]
pub struct Clock {
    pub start: tokio::time::Instant,
    pub step: Rc<Cell<u64>>,
}

impl Clock {
    pub fn new() -> Self {
        Clock {
            start: tokio::time::Instant::now(),
            step: Rc::new(Cell::new(0)),
        }
    }
    pub fn ms(&self) -> u64 {
        (tokio::time::Instant::now() - self.start).as_millis() as u64
    }
    pub fn us(&self) -> u64 {
        (tokio::time::Instant::now() - self.start).as_micros() as u64
    }
    pub fn step(&self) -> u64 {
        self.step.get()
    }
    pub fn tick(&self) -> u64 {
        self.step.set(self.step.get() + 1);
        self.step.get()
    }
}

pub type Stats = BTreeMap<&'static str, u64>;

pub fn bump(stats: &mut Stats, k: &'static str) {
    *stats.entry(k).or_insert(0) += 1;
}

pub struct SockState {
    pub id: usize,
    pub plan: SockPlan,
    pub tape: Rc<RefCell<Tape>>,
    pub clock: Clock,
    // read side
    pub inbox: std::collections::VecDeque<u8>,
    pub delivered_total: usize,
    pub read_total: usize,
    pub eof: bool,
    pub reset: bool,
    pub read_waker: Option<Waker>,
    pub pending_read_wake: bool,
    pub spurious_left: u32,
    pub read_polls: u64,
    pub read_pending_returned: bool,
    /// time (ms) and step of each successful read: (ms, step, n)
    pub reads: Vec<(u64, u64, usize)>,
    pub saw_eof_at: Option<(u64, u64)>,
    // write side
    pub wcap: Option<usize>,
    pub out: Vec<u8>,
    /// accepted by poll_write but not yet flushed to the wire (buffered mode)
    pub staged: Vec<u8>,
    pub marks: Vec<Mark>,
    pub write_waker: Option<Waker>,
    pub flush_blocked: bool,
    pub flush_waker: Option<Waker>,
    pub flush_left: u32,
    pub flush_calls: u64,
    /// steps at which poll_flush completed
    pub flush_ready_steps: Vec<u64>,
    pub shutdown_called: Option<(u64, u64)>,
    pub shutdown_done: Option<(u64, u64)>,
    pub shutdown_ready: bool,
    pub shutdown_waker: Option<Waker>,
    pub dropped: Option<(u64, u64)>,
    pub write_after_shutdown: bool,
    pub stats: Stats,
}

impl SockState {
    pub fn new(plan: SockPlan, tape: Rc<RefCell<Tape>>, clock: Clock) -> Self {
        let wcap = if plan.gated_writes { Some(0) } else { None };
        SockState {
            id: 0,
            spurious_left: plan.max_spurious,
            flush_left: plan.max_flush_pending,
            plan,
            tape,
            clock,
            inbox: Default::default(),
            delivered_total: 0,
            read_total: 0,
            eof: false,
            reset: false,
            read_waker: None,
            pending_read_wake: false,
            read_polls: 0,
            read_pending_returned: false,
            reads: Vec::new(),
            saw_eof_at: None,
            wcap,
            out: Vec::new(),
            staged: Vec::new(),
            marks: Vec::new(),
            write_waker: None,
            flush_blocked: false,
            flush_waker: None,
            flush_calls: 0,
            flush_ready_steps: Vec::new(),
            shutdown_called: None,
            shutdown_done: None,
            shutdown_ready: false,
            shutdown_waker: None,
            dropped: None,
            write_after_shutdown: false,
            stats: Stats::new(),
        }
    }

    // ---- peer-side operations, called by the simulator ----

    pub fn deliver(&mut self, data: &[u8]) {
        self.inbox.extend(data.iter().copied());
        self.delivered_total += data.len();
        if let Some(w) = self.read_waker.take() {
            w.wake();
        }
    }

    pub fn half_close(&mut self) {
        self.eof = true;
        if let Some(w) = self.read_waker.take() {
            w.wake();
        }
    }

    pub fn reset_conn(&mut self) {
        self.reset = true;
        for w in [
            self.read_waker.take(),
            self.write_waker.take(),
            self.flush_waker.take(),
            self.shutdown_waker.take(),
        ]
        .into_iter()
        .flatten()
        {
            w.wake();
        }
    }

    pub fn grant(&mut self, n: Option<usize>) {
        match n {
            None => self.wcap = None,
            Some(n) => {
                if let Some(c) = self.wcap.as_mut() {
                    *c += n;
                }
            }
        }
        if let Some(w) = self.write_waker.take() {
            w.wake();
        }
    }

    pub fn fire_read_wake(&mut self) {
        self.pending_read_wake = false;
        if let Some(w) = self.read_waker.take() {
            w.wake();
        }
    }

    pub fn fire_flush_ready(&mut self) {
        self.flush_blocked = false;
        if let Some(w) = self.flush_waker.take() {
            w.wake();
        }
    }

    pub fn fire_shutdown_ready(&mut self) {
        self.shutdown_ready = true;
        if let Some(w) = self.shutdown_waker.take() {
            w.wake();
        }
    }

    /// The server is done with this socket: it was shut down, or dropped.
    pub fn server_closed(&self) -> bool {
        self.shutdown_done.is_some() || self.dropped.is_some()
    }

    fn flush_staged(&mut self) {
        if !self.staged.is_empty() {
            let off = self.out.len();
            let data = std::mem::take(&mut self.staged);
            self.marks.push(Mark {
                off,
                len: data.len(),
                ms: self.clock.ms(),
                step: self.clock.step(),
            });
            self.out.extend_from_slice(&data);
            bump(&mut self.stats, "buffered_flush");
        }
    }

    fn cap(&mut self, mode: CapMode) -> usize {
        match mode {
            CapMode::Full => usize::MAX,
            CapMode::Byte1 => 1,
            CapMode::Rand(max) => 1 + self.tape.borrow_mut().draw(max.max(1)) as usize,
        }
    }
}

#[derive(Clone)]
pub struct SimSocket {
    pub st: Rc<RefCell<SockState>>,
}

impl std::fmt::Debug for SimSocket {
    fn fmt(&self, f: &mut std::fmt::Formatter<'_>) -> std::fmt::Result {
        f.write_str("SimSocket")
    }
}

/// The handle given to the code under test. Dropping it is recorded.
pub struct ServerEnd {
    pub st: Rc<RefCell<SockState>>,
}

impl std::fmt::Debug for ServerEnd {
    fn fmt(&self, f: &mut std::fmt::Formatter<'_>) -> std::fmt::Result {
        f.write_str("ServerEnd")
    }
}

impl Drop for ServerEnd {
    fn drop(&mut self) {
        if let Ok(mut st) = self.st.try_borrow_mut() {
            let t = (st.clock.ms(), st.clock.step());
            st.dropped = Some(t);
        }
    }
}

impl AsyncRead for ServerEnd {
    fn poll_read(
        self: Pin<&mut Self>,
        cx: &mut Context<'_>,
        buf: &mut ReadBuf<'_>,
    ) -> Poll<io::Result<()>> {
        let mut st = self.st.borrow_mut();
        let st = &mut *st;
        st.read_polls += 1;
        if st.reset {
            bump(&mut st.stats, "read_reset_err");
            return Poll::Ready(Err(io::ErrorKind::ConnectionReset.into()));
        }
        if let Some((at, kind)) = st.plan.read_err_at {
            if st.read_total >= at {
                bump(&mut st.stats, "read_err_injected");
                return Poll::Ready(Err(match kind {
                    ReadErrKind::Reset => io::ErrorKind::ConnectionReset.into(),
                    ReadErrKind::Other => io::Error::new(io::ErrorKind::Other, "injected"),
                }));
            }
        }
        if st.inbox.is_empty() {
            if st.eof {
                if st.saw_eof_at.is_none() {
                    st.saw_eof_at = Some((st.clock.ms(), st.clock.step()));
                }
                return Poll::Ready(Ok(()));
            }
            st.read_waker = Some(cx.waker().clone());
            st.read_pending_returned = true;
            return Poll::Pending;
        }
        if st.pending_read_wake {
            // an injected Pending is still outstanding: stay Pending until its wake fires
            st.read_waker = Some(cx.waker().clone());
            return Poll::Pending;
        }
        if st.spurious_left > 0 && st.plan.spurious_read_pm > 0 {
            let hit = st.tape.borrow_mut().chance(st.plan.spurious_read_pm, 1000);
            if hit {
                st.spurious_left -= 1;
                st.pending_read_wake = true;
                st.read_waker = Some(cx.waker().clone());
                let wb = st.plan.wouldblock_pm > 0
                    && st.tape.borrow_mut().chance(st.plan.wouldblock_pm, 1000);
                if wb {
                    bump(&mut st.stats, "read_wouldblock");
                    return Poll::Ready(Err(io::ErrorKind::WouldBlock.into()));
                }
                bump(&mut st.stats, "read_spurious_pending");
                return Poll::Pending;
            }
        }
        let mode = st.plan.read_mode;
        let cap = st.cap(mode);
        let mut n = cap.min(st.inbox.len()).min(buf.remaining());
        if let Some((at, _)) = st.plan.read_err_at {
            n = n.min(at - st.read_total);
        }
        if n == 0 {
            // buf.remaining() == 0: legal no-op read
            return Poll::Ready(Ok(()));
        }
        if n < st.inbox.len() && n < buf.remaining() {
            bump(&mut st.stats, "short_read");
            if n == 1 {
                bump(&mut st.stats, "one_byte_read");
            }
        }
        let (a, b) = st.inbox.as_slices();
        if n <= a.len() {
            buf.put_slice(&a[..n]);
        } else {
            buf.put_slice(a);
            buf.put_slice(&b[..n - a.len()]);
        }
        st.inbox.drain(..n);
        st.read_total += n;
        st.reads.push((st.clock.ms(), st.clock.step(), n));
        Poll::Ready(Ok(()))
    }
}

impl AsyncWrite for ServerEnd {
    fn poll_write(
        self: Pin<&mut Self>,
        cx: &mut Context<'_>,
        buf: &[u8],
    ) -> Poll<io::Result<usize>> {
        let mut st = self.st.borrow_mut();
        let st = &mut *st;
        if st.reset {
            bump(&mut st.stats, "write_after_reset_err");
            return Poll::Ready(Err(io::ErrorKind::BrokenPipe.into()));
        }
        if st.shutdown_done.is_some() {
            st.write_after_shutdown = true;
            return Poll::Ready(Err(io::ErrorKind::BrokenPipe.into()));
        }
        if buf.is_empty() {
            return Poll::Ready(Ok(0));
        }
        if let Some(at) = st.plan.write_err_at {
            if st.out.len() >= at {
                bump(&mut st.stats, "write_err_injected");
                return Poll::Ready(Err(io::ErrorKind::BrokenPipe.into()));
            }
        }
        if let Some(at) = st.plan.write_zero_at {
            if st.out.len() >= at {
                bump(&mut st.stats, "write_zero_injected");
                return Poll::Ready(Ok(0));
            }
        }
        if st.plan.buffered {
            let mode = st.plan.write_mode;
            let n = buf.len().min(st.cap(mode));
            st.staged.extend_from_slice(&buf[..n]);
            if n < buf.len() {
                bump(&mut st.stats, "partial_write");
            }
            return Poll::Ready(Ok(n));
        }
        if st.wcap == Some(0) {
            bump(&mut st.stats, "write_stall");
            st.write_waker = Some(cx.waker().clone());
            return Poll::Pending;
        }
        let mode = st.plan.write_mode;
        let cap = st.cap(mode);
        let mut n = buf.len().min(cap).min(st.wcap.unwrap_or(usize::MAX));
        if let Some(at) = st.plan.write_err_at {
            n = n.min(at - st.out.len());
        }
        if let Some(at) = st.plan.write_zero_at {
            n = n.min(at - st.out.len());
        }
        if n < buf.len() {
            bump(&mut st.stats, "partial_write");
        }
        if let Some(c) = st.wcap.as_mut() {
            *c -= n;
        }
        let off = st.out.len();
        st.out.extend_from_slice(&buf[..n]);
        st.marks.push(Mark {
            off,
            len: n,
            ms: st.clock.ms(),
            step: st.clock.step(),
        });
        Poll::Ready(Ok(n))
    }

    fn poll_flush(self: Pin<&mut Self>, cx: &mut Context<'_>) -> Poll<io::Result<()>> {
        let mut st = self.st.borrow_mut();
        let st = &mut *st;
        st.flush_calls += 1;
        if st.reset {
            return Poll::Ready(Err(io::ErrorKind::BrokenPipe.into()));
        }
        if st.flush_blocked {
            st.flush_waker = Some(cx.waker().clone());
            return Poll::Pending;
        }
        if st.flush_left > 0 && st.plan.flush_pending_pm > 0 {
            let hit = st.tape.borrow_mut().chance(st.plan.flush_pending_pm, 1000);
            if hit {
                st.flush_left -= 1;
                st.flush_blocked = true;
                st.flush_waker = Some(cx.waker().clone());
                bump(&mut st.stats, "flush_pending");
                return Poll::Pending;
            }
        }
        st.flush_staged();
        let step = st.clock.step();
        if st.flush_ready_steps.last() != Some(&step) {
            st.flush_ready_steps.push(step);
        }
        Poll::Ready(Ok(()))
    }

    fn poll_shutdown(self: Pin<&mut Self>, cx: &mut Context<'_>) -> Poll<io::Result<()>> {
        let mut st = self.st.borrow_mut();
        let st = &mut *st;
        if st.shutdown_called.is_none() {
            st.shutdown_called = Some((st.clock.ms(), st.clock.step()));
        }
        if st.reset {
            return Poll::Ready(Err(io::ErrorKind::BrokenPipe.into()));
        }
        let ready = match st.plan.shutdown {
            ShutPlan::Ready => true,
            ShutPlan::Err => {
                bump(&mut st.stats, "shutdown_err");
                return Poll::Ready(Err(io::ErrorKind::NotConnected.into()));
            }
            ShutPlan::PendingMs(_) | ShutPlan::PendingForever => st.shutdown_ready,
        };
        if ready {
            st.flush_staged();
            if st.shutdown_done.is_none() {
                st.shutdown_done = Some((st.clock.ms(), st.clock.step()));
            }
            Poll::Ready(Ok(()))
        } else {
            bump(&mut st.stats, "shutdown_pending");
            st.shutdown_waker = Some(cx.waker().clone());
            Poll::Pending
        }
    }
}

pub fn new_socket(plan: SockPlan, tape: Rc<RefCell<Tape>>, clock: Clock) -> (ServerEnd, SimSocket) {
    let st = Rc::new(RefCell::new(SockState::new(plan, tape, clock)));
    (ServerEnd { st: st.clone() }, SimSocket { st })
}
