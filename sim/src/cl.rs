//! Rig CL (C17): the real `awc::Client` (connection pool, h1 client codec, payload stream) over
//! simulated sockets handed out by a custom connector; the peer is a scripted server that answers
//! each request with a generated response, cut / closed / reset wherever the scenario says, under
//! simulator-chosen segmentation and interleaving of several client tasks.

use std::{
    cell::RefCell,
    collections::BTreeMap,
    future::Future,
    io,
    pin::Pin,
    rc::Rc,
    task::{Context, Poll},
    time::Duration,
};

use actix_rt::net::{ActixStream, Ready};
use actix_service::Service;
use actix_tls::connect::{ConnectError, ConnectInfo, Connection};
use futures_util::StreamExt as _;
use http::Uri;
use serde::{Deserialize, Serialize};

use crate::{
    batch::{Rig, RunReport, Tier, Violation},
    exec::{gate::Gates, run_sim, Exec, Idle},
    rng::{Rng, Tape},
    sock::{new_socket, CapMode, Clock, ServerEnd, SimSocket, SockPlan},
};

impl ActixStream for ServerEnd {
    fn poll_read_ready(&self, _cx: &mut Context<'_>) -> Poll<io::Result<Ready>> {
        Poll::Ready(Ok(Ready::READABLE))
    }
    fn poll_write_ready(&self, _cx: &mut Context<'_>) -> Poll<io::Result<Ready>> {
        Poll::Ready(Ok(Ready::WRITABLE))
    }
}

#[derive(Clone, Copy, Debug, Serialize, Deserialize, PartialEq, Eq)]
pub enum Framing {
    /// Content-Length: n
    Length,
    Chunked,
    /// neither: the body ends when the connection does
    UntilClose,
}

#[derive(Clone, Copy, Debug, Serialize, Deserialize, PartialEq, Eq)]
pub enum ConnHdr {
    Absent,
    Close,
    KeepAlive,
}

#[derive(Clone, Copy, Debug, Serialize, Deserialize, PartialEq, Eq)]
pub enum Consume {
    All,
    DropAfterHead,
    DropAfterChunks(usize),
}

#[derive(Clone, Copy, Debug, Serialize, Deserialize, PartialEq, Eq)]
pub enum CutKind {
    Eof,
    Reset,
}

#[derive(Clone, Debug, Serialize, Deserialize)]
pub struct ClReq {
    /// start only after this request's client task has finished (None: right away)
    pub start_after: Option<usize>,
    pub head_method: bool,
    pub http10: bool,
    pub status: u16,
    pub framing: Framing,
    pub conn_hdr: ConnHdr,
    pub body_len: usize,
    pub chunk: usize,
    /// the server stops after this many bytes of the serialized response and ends the connection
    pub cut_at: Option<(usize, CutKind)>,
    /// the server closes the connection after the complete response although it is persistent
    pub close_after: bool,
    pub consume: Consume,
    /// bytes to send instead of the serialized response (used by the C19 rig only)
    #[serde(default)]
    pub raw: Option<Vec<u8>>,
}

#[derive(Clone, Debug, Serialize, Deserialize)]
pub struct ClScenario {
    pub limit: usize,
    pub reqs: Vec<ClReq>,
    pub read_cap: u32,
    pub slow_connect: bool,
}

fn body_of(id: usize, n: usize) -> Vec<u8> {
    (0..n).map(|j| b'a' + ((id * 7 + j * 3 + j / 13) % 26) as u8).collect()
}

fn has_body(r: &ClReq) -> bool {
    !(r.head_method || r.status == 204 || r.status == 304)
}

/// Independent serializer of the scripted response.
pub(crate) fn wire(id: usize, r: &ClReq) -> Vec<u8> {
    let mut s = format!("HTTP/1.{} {} X\r\nx-id: {}\r\n", if r.http10 { 0 } else { 1 }, r.status, id);
    match r.conn_hdr {
        ConnHdr::Absent => {}
        ConnHdr::Close => s.push_str("connection: close\r\n"),
        ConnHdr::KeepAlive => s.push_str("connection: keep-alive\r\n"),
    }
    let body = body_of(id, r.body_len);
    if r.status != 204 {
        match r.framing {
            Framing::Length => s.push_str(&format!("content-length: {}\r\n", r.body_len)),
            Framing::Chunked => s.push_str("transfer-encoding: chunked\r\n"),
            Framing::UntilClose => {}
        }
    }
    s.push_str("\r\n");
    let mut w = s.into_bytes();
    if has_body(r) {
        match r.framing {
            Framing::Length | Framing::UntilClose => w.extend_from_slice(&body),
            Framing::Chunked => {
                for c in body.chunks(r.chunk.max(1)) {
                    w.extend_from_slice(format!("{:x}\r\n", c.len()).as_bytes());
                    w.extend_from_slice(c);
                    w.extend_from_slice(b"\r\n");
                }
                w.extend_from_slice(b"0\r\n\r\n");
            }
        }
    }
    w
}

/// May the connection be used again after this exchange (RFC 7230 §6.3), from the script alone.
fn persistent(r: &ClReq) -> bool {
    let by_version = if r.http10 { r.conn_hdr == ConnHdr::KeepAlive } else { r.conn_hdr != ConnHdr::Close };
    let self_delimiting = !has_body(r) || r.framing != Framing::UntilClose;
    by_version && self_delimiting && r.cut_at.is_none()
}

#[derive(Clone, Debug, Default)]
struct Outcome {
    started: bool,
    finished: bool,
    send_err: Option<String>,
    status: Option<u16>,
    body: Vec<u8>,
    body_err: Option<String>,
    saw_end: bool,
    no_payload: bool,
}

#[derive(Clone)]
struct SimConnector {
    sh: Rc<ConnShared>,
}

struct ConnShared {
    tape: Rc<RefCell<Tape>>,
    clock: Clock,
    socks: RefCell<Vec<SimSocket>>,
    gates: Gates,
    pending_connects: RefCell<Vec<usize>>,
    read_cap: u32,
    slow_connect: bool,
    max_live: RefCell<usize>,
}

const CONNECT_GATE_BASE: usize = 64;

impl ConnShared {
    fn live(&self) -> usize {
        self.socks.borrow().iter().filter(|s| {
            let st = s.st.borrow();
            st.dropped.is_none() && st.shutdown_called.is_none()
        }).count()
    }
}

impl Service<ConnectInfo<Uri>> for SimConnector {
    type Response = Connection<Uri, ServerEnd>;
    type Error = ConnectError;
    type Future = Pin<Box<dyn Future<Output = Result<Self::Response, Self::Error>>>>;

    fn poll_ready(&self, _: &mut Context<'_>) -> Poll<Result<(), Self::Error>> {
        Poll::Ready(Ok(()))
    }

    fn call(&self, req: ConnectInfo<Uri>) -> Self::Future {
        let sh = self.sh.clone();
        Box::pin(async move {
            let plan = SockPlan { read_mode: if sh.read_cap == 0 { CapMode::Full } else { CapMode::Rand(sh.read_cap) }, ..SockPlan::default() };
            let (se, ss) = new_socket(plan, sh.tape.clone(), sh.clock.clone());
            let k = {
                let mut socks = sh.socks.borrow_mut();
                se.st.borrow_mut().id = socks.len();
                socks.push(ss);
                socks.len() - 1
            };
            // the socket exists (SYN sent) from now on
            {
                let live = sh.live();
                let mut m = sh.max_live.borrow_mut();
                if live > *m {
                    *m = live;
                }
            }
            if sh.slow_connect && k < 32 {
                sh.pending_connects.borrow_mut().push(k);
                sh.gates.wait(CONNECT_GATE_BASE + k).await;
            }
            Ok(Connection::new(req.request().clone(), se))
        })
    }
}

#[derive(Default)]
struct SrvConn {
    /// request ids recognised on this connection, in order
    reqs: Vec<usize>,
    parsed_upto: usize,
    /// bytes of the current response still to send
    pending: std::collections::VecDeque<u8>,
    /// what to do when `pending` is empty: None = stay open
    then_end: Option<CutKind>,
    ended: bool,
    sent_total: usize,
}

#[derive(Default)]
pub(crate) struct Out {
    outcomes: Vec<Outcome>,
    /// per request: (connection, position on it)
    placed: BTreeMap<usize, (usize, usize)>,
    conns: usize,
    max_live: usize,
    pub(crate) steps: u64,
    pub(crate) sim_ms: u64,
    pub(crate) stuck: Option<String>,
    pub(crate) tape: Vec<u32>,
    stats: BTreeMap<&'static str, u64>,
    foreign: Vec<(usize, String)>,
    log: Vec<String>,
}

pub(crate) async fn run_world(sc: ClScenario, tape: Tape, narrative: bool) -> Out {
    let tape = Rc::new(RefCell::new(tape));
    let clock = Clock::new();
    let n = sc.reqs.len();
    let gates = Gates::new(CONNECT_GATE_BASE + 32);
    let sh = Rc::new(ConnShared {
        tape: tape.clone(),
        clock: clock.clone(),
        socks: RefCell::new(Vec::new()),
        gates: gates.clone(),
        pending_connects: RefCell::new(Vec::new()),
        read_cap: sc.read_cap,
        slow_connect: sc.slow_connect,
        max_live: RefCell::new(0),
    });
    let connector = awc::Connector::new()
        .connector(SimConnector { sh: sh.clone() })
        .limit(sc.limit)
        .conn_keep_alive(Duration::from_secs(36_000))
        .conn_lifetime(Duration::from_secs(36_000))
        .disconnect_timeout(Duration::from_millis(100));
    let client = awc::Client::builder().connector(connector).timeout(Duration::from_secs(5)).disable_redirects().finish();
    let outcomes: Rc<RefCell<Vec<Outcome>>> = Rc::new(RefCell::new(vec![Outcome::default(); n]));
    let mut ex = Exec::new();
    for (i, r) in sc.reqs.iter().enumerate() {
        let client = client.clone();
        let outcomes = outcomes.clone();
        let gates = gates.clone();
        let r = r.clone();
        ex.spawn(&format!("req-{}", i), async move {
            gates.wait(i).await;
            outcomes.borrow_mut()[i].started = true;
            let url = format!("http://sim.test/r{}", i);
            let req = if r.head_method { client.head(url) } else { client.get(url) };
            match req.send().await {
                Err(e) => {
                    outcomes.borrow_mut()[i].send_err = Some(format!("{:?}", e));
                }
                Ok(mut resp) => {
                    outcomes.borrow_mut()[i].status = Some(resp.status().as_u16());
                    let max_chunks = match r.consume {
                        Consume::All => usize::MAX,
                        Consume::DropAfterHead => 0,
                        Consume::DropAfterChunks(k) => k,
                    };
                    let mut got = 0usize;
                    while got < max_chunks {
                        match resp.next().await {
                            Some(Ok(b)) => {
                                outcomes.borrow_mut()[i].body.extend_from_slice(&b);
                                got += 1;
                            }
                            Some(Err(e)) => {
                                outcomes.borrow_mut()[i].body_err = Some(format!("{:?}", e));
                                break;
                            }
                            None => {
                                outcomes.borrow_mut()[i].saw_end = true;
                                break;
                            }
                        }
                    }
                    drop(resp);
                }
            }
            outcomes.borrow_mut()[i].finished = true;
        });
    }
    drop(client);
    let mut srv: Vec<SrvConn> = Vec::new();
    let mut started = vec![false; n];
    let mut out = Out::default();
    loop {
        out.steps += 1;
        if out.steps > 100_000 {
            out.stuck = Some("step budget exhausted".into());
            break;
        }
        // let tasks spawned on the runtime by the code under test (connection close) run
        tokio::task::yield_now().await;
        // server side: recognise complete requests
        {
            let socks = sh.socks.borrow();
            while srv.len() < socks.len() {
                srv.push(SrvConn::default());
            }
            for (c, s) in socks.iter().enumerate() {
                let st = s.st.borrow();
                let sv = &mut srv[c];
                loop {
                    let rest = &st.out[sv.parsed_upto..];
                    let end = match rest.windows(4).position(|w| w == b"\r\n\r\n") {
                        Some(p) => p + 4,
                        None => break,
                    };
                    let head = String::from_utf8_lossy(&rest[..end]).to_string();
                    sv.parsed_upto += end;
                    let id = head.split(' ').nth(1).and_then(|p| p.strip_prefix("/r")).and_then(|p| p.parse::<usize>().ok());
                    match id {
                        Some(id) if id < n => {
                            out.placed.insert(id, (c, sv.reqs.len()));
                            sv.reqs.push(id);
                            if sv.pending.is_empty() && (sv.then_end.is_some() || sv.ended) {
                                // the server is about to close (or has closed): the request is never answered
                            } else if sv.pending.is_empty() {
                                let r = &sc.reqs[id];
                                let mut w = match &r.raw {
                                    Some(raw) => raw.clone(),
                                    None => wire(id, r),
                                };
                                if let Some((at, kind)) = r.cut_at {
                                    w.truncate(at.min(w.len().saturating_sub(1)));
                                    sv.then_end = Some(kind);
                                } else if r.close_after || !persistent(r) {
                                    sv.then_end = Some(CutKind::Eof);
                                }
                                sv.pending.extend(w);
                            } else {
                                out.foreign.push((c, format!("request r{} written on connection {} while the previous exchange there was not over", id, c)));
                            }
                        }
                        _ => out.foreign.push((c, format!("unrecognised request head on connection {}: {:?}", c, head.chars().take(60).collect::<String>()))),
                    }
                }
            }
        }
        #[derive(Clone, Copy)]
        enum A {
            Run(usize),
            Start(usize),
            ConnDone(usize),
            Send(usize),
            End(usize),
        }
        let mut acts: Vec<A> = Vec::new();
        for t in ex.runnable() {
            acts.push(A::Run(t));
        }
        for i in 0..n {
            if !started[i] {
                let ok = match sc.reqs[i].start_after {
                    None => true,
                    Some(d) => d >= n || d == i || outcomes.borrow()[d].finished,
                };
                if ok {
                    acts.push(A::Start(i));
                }
            }
        }
        for k in sh.pending_connects.borrow().iter() {
            acts.push(A::ConnDone(*k));
        }
        for (c, sv) in srv.iter().enumerate() {
            if sv.ended {
                continue;
            }
            if !sv.pending.is_empty() {
                acts.push(A::Send(c));
            } else if sv.then_end.is_some() {
                acts.push(A::End(c));
            }
        }
        if acts.is_empty() {
            if outcomes.borrow().iter().all(|o| o.finished) {
                break;
            }
            let dl = ex.now() + Duration::from_secs(30);
            if ex.idle_until(dl).await == Idle::Deadline {
                let who: Vec<usize> = outcomes.borrow().iter().enumerate().filter(|(_, o)| o.started && !o.finished).map(|(i, _)| i).collect();
                out.stuck = Some(format!("client tasks {:?} never finish although the peer has nothing more to do", who));
                break;
            }
            continue;
        }
        let k = if acts.len() == 1 { 0 } else { tape.borrow_mut().draw(acts.len() as u32) as usize };
        clock.tick();
        if narrative {
            let d = match acts[k] {
                A::Run(t) => format!("run task {}", t),
                A::Start(i) => format!("start r{}", i),
                A::ConnDone(c) => format!("connect {} completes", c),
                A::Send(c) => format!("server sends on conn {} ({} pending)", c, srv[c].pending.len()),
                A::End(c) => format!("server ends conn {}", c),
            };
            out.log.push(format!("[{} ms] {} | live={} ", ex.now_ms(), d, sh.live()));
        }
        match acts[k] {
            A::Run(t) => {
                ex.poll_task(t);
            }
            A::Start(i) => {
                started[i] = true;
                gates.open(i);
            }
            A::ConnDone(c) => {
                sh.pending_connects.borrow_mut().retain(|x| *x != c);
                gates.open(CONNECT_GATE_BASE + c);
            }
            A::Send(c) => {
                let sv = &mut srv[c];
                let left = sv.pending.len();
                let mode = tape.borrow_mut().draw(4);
                let nbytes = match mode {
                    0 => 1,
                    1 => 1 + tape.borrow_mut().draw(left.min(64) as u32) as usize,
                    2 => 1 + tape.borrow_mut().draw(left as u32) as usize,
                    _ => left,
                }
                .min(left);
                let seg: Vec<u8> = sv.pending.drain(..nbytes).collect();
                sv.sent_total += seg.len();
                sh.socks.borrow()[c].st.borrow_mut().deliver(&seg);
                *out.stats.entry("segments_delivered").or_insert(0) += 1;
            }
            A::End(c) => {
                let sv = &mut srv[c];
                sv.ended = true;
                match sv.then_end.take() {
                    Some(CutKind::Reset) => {
                        sh.socks.borrow()[c].st.borrow_mut().reset_conn();
                        *out.stats.entry("peer_reset").or_insert(0) += 1;
                    }
                    _ => {
                        sh.socks.borrow()[c].st.borrow_mut().half_close();
                        *out.stats.entry("peer_closed").or_insert(0) += 1;
                    }
                }
            }
        }
        let live = sh.live();
        if live > *sh.max_live.borrow() {
            *sh.max_live.borrow_mut() = live;
        }
    }
    out.outcomes = outcomes.borrow().clone();
    out.conns = sh.socks.borrow().len();
    out.max_live = *sh.max_live.borrow();
    out.tape = tape.borrow().record.clone();
    out.sim_ms = ex.now_ms();
    drop(ex);
    tokio::task::yield_now().await;
    out
}

pub struct ClRig;

fn gen_req(rng: &mut Rng, i: usize) -> ClReq {
    let head_method = rng.chance(1, 8);
    let status = *rng.pick(&[200u16, 200, 200, 200, 404, 204, 304]);
    let http10 = rng.chance(1, 8);
    let mut framing = match rng.below(10) {
        0..=4 => Framing::Length,
        5..=7 => Framing::Chunked,
        _ => Framing::UntilClose,
    };
    if http10 && framing == Framing::Chunked {
        framing = Framing::Length;
    }
    let body_len = *rng.pick(&[0usize, 1, 5, 100, 1000, 5000, 40_000, 70_000]);
    let body_len = if body_len > 1000 { body_len + rng.usize(500) } else { body_len };
    let chunk = *rng.pick(&[1usize, 7, 100, 1024, 8192, 100_000]);
    let mut r = ClReq {
        start_after: if i > 0 && rng.chance(2, 3) { Some(rng.usize(i)) } else { None },
        head_method,
        http10,
        status,
        framing,
        conn_hdr: *rng.pick(&[ConnHdr::Absent, ConnHdr::Absent, ConnHdr::Absent, ConnHdr::Close, ConnHdr::KeepAlive]),
        body_len,
        chunk,
        cut_at: None,
        close_after: rng.chance(1, 10),
        consume: match rng.below(6) {
            0 => Consume::DropAfterHead,
            1 => Consume::DropAfterChunks(rng.range(1, 3)),
            _ => Consume::All,
        },
        raw: None,
    };
    // keep the known HTTP/1.1 no-length-no-close class rare so that most runs explore the rest
    if unframed11(&r) && !rng.chance(1, 5) {
        r.framing = Framing::Length;
    }
    if phantom304(&r) && !rng.chance(1, 5) {
        r.framing = Framing::UntilClose;
    }
    if rng.chance(1, 3) {
        let w = wire(i, &r).len();
        let at = match rng.below(4) {
            0 => rng.usize(w.min(40) + 1),
            1 => w.saturating_sub(1 + rng.usize(8)),
            _ => rng.usize(w + 1),
        };
        r.cut_at = Some((at, if rng.chance(1, 4) { CutKind::Reset } else { CutKind::Eof }));
    }
    r
}

impl Rig for ClRig {
    type Sc = ClScenario;
    fn property(&self) -> &'static str {
        "C17"
    }
    fn rig_name(&self) -> &'static str {
        "CL"
    }
    fn runs(&self, tier: Tier) -> u64 {
        match tier {
            Tier::Quick => 120_000,
            Tier::Thorough => 12_000_000,
        }
    }
    fn gen(&self, rng: &mut Rng, _idx: u64, _tier: Tier) -> ClScenario {
        let n = rng.range(1, 7);
        ClScenario {
            limit: rng.range(1, 4),
            reqs: (0..n).map(|i| gen_req(rng, i)).collect(),
            read_cap: *rng.pick(&[0u32, 0, 1, 16, 4096]),
            slow_connect: rng.chance(1, 2),
        }
    }

    fn shrink(&self, sc: &ClScenario) -> Vec<ClScenario> {
        let mut v = Vec::new();
        for i in (0..sc.reqs.len()).rev() {
            // dropping request i: later start_after indices shift
            let mut c = sc.clone();
            c.reqs.remove(i);
            for r in c.reqs.iter_mut() {
                r.start_after = match r.start_after {
                    Some(d) if d == i => None,
                    Some(d) if d > i => Some(d - 1),
                    x => x,
                };
            }
            // bodies are derived from the index, so only dropping the last keeps the others' meaning
            if !c.reqs.is_empty() {
                v.push(c);
            }
        }
        if sc.slow_connect {
            let mut c = sc.clone();
            c.slow_connect = false;
            v.push(c);
        }
        if sc.read_cap != 0 {
            let mut c = sc.clone();
            c.read_cap = 0;
            v.push(c);
        }
        for i in 0..sc.reqs.len() {
            if sc.reqs[i].body_len > 5 {
                let mut c = sc.clone();
                c.reqs[i].body_len = 5;
                if let Some((at, k)) = c.reqs[i].cut_at {
                    let w = wire(i, &c.reqs[i]).len();
                    c.reqs[i].cut_at = Some((at.min(w.saturating_sub(2)), k));
                }
                v.push(c);
            }
            if sc.reqs[i].close_after {
                let mut c = sc.clone();
                c.reqs[i].close_after = false;
                v.push(c);
            }
        }
        v
    }

    fn run(&self, sc: &ClScenario, tape: Tape, narrative: bool) -> RunReport {
        let sc2 = sc.clone();
        let out = run_sim(async move { run_world(sc2, tape, narrative).await });
        let mut vs = Vec::new();
        let mut narr = out.log.clone();
        let mut stats = out.stats.clone();
        if let Some(s) = &out.stuck {
            let stuck304 = sc.reqs.iter().enumerate().any(|(i, r)| phantom304(r) && out.outcomes[i].started && !out.outcomes[i].finished);
            vs.push(Violation::new("C17.complete-or-error", if stuck304 { "hang:304-with-length-awaits-body" } else { "hang" }, s.clone()));
        }
        // which requests shared a connection
        let mut per_conn: BTreeMap<usize, Vec<(usize, usize)>> = BTreeMap::new();
        for (id, (c, pos)) in &out.placed {
            per_conn.entry(*c).or_default().push((*pos, *id));
        }
        // An HTTP/1.1 response with neither Content-Length nor Transfer-Encoding nor
        // `Connection: close` is delimited by the end of the connection (RFC 7230 §3.3.3 rule 7);
        // the client assumes it has no body and keeps the connection. Everything that happens on
        // that connection afterwards is a consequence and is judged under this one heading.
        let mut tainted_from: BTreeMap<usize, usize> = BTreeMap::new();
        for (c, v) in per_conn.iter_mut() {
            v.sort();
            for (pos, id) in v.iter() {
                if unframed11(&sc.reqs[*id]) || phantom304(&sc.reqs[*id]) {
                    tainted_from.entry(*c).or_insert(*pos);
                }
            }
        }
        let after_taint = |id: usize| -> bool {
            match out.placed.get(&id) {
                Some((c, pos)) => tainted_from.get(c).map(|t| pos > t).unwrap_or(false),
                None => false,
            }
        };
        for (c, f) in &out.foreign {
            if tainted_from.contains_key(c) {
                continue;
            }
            vs.push(Violation::new("C17.reuse", "request-on-busy-connection", f.clone()));
        }
        for (c, v) in per_conn.iter() {
            for w in v.windows(2) {
                let (prev, next) = (w[0].1, w[1].1);
                let pr = &sc.reqs[prev];
                let po = &out.outcomes[prev];
                *stats.entry("connection_reused").or_insert(0) += 1;
                if unframed11(pr) {
                    vs.push(Violation::new("C17.reuse", "http11-response-without-length-or-close-assumed-empty", format!("request r{} was written on connection {} after r{}, whose HTTP/1.1 response has neither Content-Length nor Transfer-Encoding (so its body runs until the connection closes)", next, c, prev)));
                    continue;
                }
                if phantom304(pr) {
                    vs.push(Violation::new("C17.reuse", "304-with-length-read-as-body", format!("request r{} was written on connection {} after r{}, a 304 response with Content-Length/Transfer-Encoding whose (non-existent) body the client was still waiting for or had taken from the following bytes", next, c, prev)));
                    continue;
                }
                if after_taint(prev) {
                    continue;
                }
                if !persistent(pr) {
                    vs.push(Violation::new("C17.reuse", format!("after-nonpersistent:{}", why_nonpersistent(pr)), format!("request r{} was written on connection {} after the exchange of r{}, which does not leave a persistent connection ({})", next, c, prev, why_nonpersistent(pr))));
                }
                // `Content-Length: 0` leaves nothing to read
                let nothing_to_read = !has_body(pr) || (pr.framing == Framing::Length && pr.body_len == 0);
                let read_to_end = po.saw_end || (po.status.is_some() && nothing_to_read);
                if !read_to_end {
                    vs.push(Violation::new("C17.reuse", "after-unread-body", format!("request r{} was written on connection {} although the body of r{} was not read to its end ({} of {} bytes, consume {:?})", next, c, prev, po.body.len(), pr.body_len, pr.consume)));
                }
            }
        }
        for (i, r) in sc.reqs.iter().enumerate() {
            let o = &out.outcomes[i];
            if !o.finished || after_taint(i) {
                continue;
            }
            if phantom304(r) {
                if o.status == Some(304) && !(o.saw_end && o.body.is_empty()) && r.consume == Consume::All {
                    vs.push(Violation::new("C17.reuse", "304-with-length-read-as-body", format!("r{}: 304 response with Content-Length/Transfer-Encoding: the client delivered {} body bytes, end={}, error {:?}", i, o.body.len(), o.saw_end, o.body_err)));
                }
                continue;
            }
            let w = wire(i, r);
            let head_len = w.windows(4).position(|x| x == b"\r\n\r\n").map(|p| p + 4).unwrap_or(w.len());
            let sent = r.cut_at.map(|(at, _)| at.min(w.len().saturating_sub(1))).unwrap_or(w.len());
            let complete = r.cut_at.is_none();
            let full = if has_body(r) { body_of(i, r.body_len) } else { Vec::new() };
            let placed = out.placed.get(&i);
            let fresh = placed.map(|(_, pos)| *pos == 0).unwrap_or(false);
            if narrative {
                narr.push(format!("r{}: placed {:?} sent {}/{} -> status {:?} body {} bytes end={} send_err={:?} body_err={:?}", i, placed, sent, w.len(), o.status, o.body.len(), o.saw_end, o.send_err, o.body_err));
            }
            if let Some(e) = &o.send_err {
                *stats.entry("send_errors").or_insert(0) += 1;
                if complete && fresh && !e.contains("Timeout") {
                    vs.push(Violation::new("C17.complete-or-error", "error-on-complete-response", format!("r{}: the peer sent the complete response on a fresh connection, send() failed with {}", i, e)));
                }
                if complete && fresh && e.contains("Timeout") {
                    vs.push(Violation::new("C17.complete-or-error", "timeout-on-complete-response", format!("r{}: the peer sent the complete response, send() timed out", i)));
                }
                continue;
            }
            let st = match o.status {
                Some(s) => s,
                None => continue,
            };
            if sent < head_len {
                vs.push(Violation::new("C17.complete-or-error", "head-from-nowhere", format!("r{}: only {} of {} head bytes were sent, yet send() returned status {}", i, sent, head_len, st)));
                continue;
            }
            if st != r.status {
                vs.push(Violation::new("C17.no-leftovers", "wrong-status", format!("r{}: status {} delivered, {} sent", i, st, r.status)));
            }
            // what was delivered must be a prefix of this response's body, never anything else
            if !full.starts_with(&o.body) {
                vs.push(Violation::new("C17.no-leftovers", "foreign-bytes", format!("r{}: the {} delivered body bytes are not a prefix of the body sent for this request ({} bytes)", i, o.body.len(), full.len())));
                continue;
            }
            if o.saw_end {
                *stats.entry("clean_ends").or_insert(0) += 1;
                let body_sent_complete = match r.framing {
                    _ if !has_body(r) => true,
                    Framing::UntilClose => true,
                    _ => complete,
                };
                let reset = matches!(r.cut_at, Some((_, CutKind::Reset)));
                if !body_sent_complete {
                    vs.push(Violation::new("C17.complete-or-error", format!("short-success:{:?}", r.framing), format!("r{}: {:?} body of {} bytes, connection ended after {} of {} wire bytes, the client reported a clean end after {} bytes", i, r.framing, r.body_len, sent, w.len(), o.body.len())));
                } else if has_body(r) && r.framing == Framing::UntilClose {
                    let exp_len = sent - head_len;
                    if unframed11(r) {
                        if o.body.len() < exp_len.min(r.body_len) {
                            vs.push(Violation::new("C17.reuse", "http11-response-without-length-or-close-assumed-empty", format!("r{}: HTTP/1.1 response without Content-Length/Transfer-Encoding: {} body bytes sent before the connection closed, the client reported a clean end after {}", i, exp_len, o.body.len())));
                        }
                    } else if reset && o.body.len() < r.body_len {
                        vs.push(Violation::new("C17.complete-or-error", "short-success:reset-until-close", format!("r{}: close-delimited body ended by a connection reset after {} bytes was reported as a clean end", i, exp_len)));
                    } else if o.body.len() != exp_len.min(r.body_len) {
                        vs.push(Violation::new("C17.complete-or-error", "close-delimited-length", format!("r{}: {} body bytes sent before close, {} delivered", i, exp_len, o.body.len())));
                    }
                } else if o.body != full {
                    vs.push(Violation::new("C17.complete-or-error", "short-success:complete-response", format!("r{}: complete response, clean end after {} of {} bytes", i, o.body.len(), full.len())));
                }
            } else if let Some(e) = &o.body_err {
                *stats.entry("body_errors").or_insert(0) += 1;
                if complete && fresh && r.consume == Consume::All {
                    vs.push(Violation::new("C17.complete-or-error", "error-on-complete-response", format!("r{}: complete response on a fresh connection, body error {}", i, e)));
                }
            }
        }
        if out.max_live > sc.limit {
            vs.push(Violation::new("C17.limit", "", format!("{} connections open at once, limit {}", out.max_live, sc.limit)));
        }
        stats.insert("connections_opened", out.conns as u64);
        stats.insert("cut_responses", sc.reqs.iter().filter(|r| r.cut_at.is_some()).count() as u64);
        stats.insert("early_dropped_bodies", sc.reqs.iter().filter(|r| r.consume != Consume::All).count() as u64);
        stats.insert("waited_for_permit_runs", (sc.reqs.iter().filter(|r| r.start_after.is_none()).count() > sc.limit) as u64);
        let mut h: u64 = 0xcbf29ce484222325;
        for b in serde_json::to_string(sc).unwrap_or_default().bytes() {
            h = (h ^ b as u64).wrapping_mul(0x100000001b3);
        }
        for t in &out.tape {
            h = (h ^ *t as u64).wrapping_mul(0x100000001b3);
        }
        for o in &out.outcomes {
            h = (h ^ o.body.len() as u64 ^ ((o.status.unwrap_or(0) as u64) << 32)).wrapping_mul(0x100000001b3);
        }
        RunReport {
            violations: vs,
            trace_hash: h,
            stats,
            nontrivial: out.outcomes.iter().filter(|o| o.finished).count() >= 1 && out.conns >= 1,
            states: vec![],
            sim_ms: out.sim_ms,
            steps: out.steps,
            tape: out.tape.clone(),
            narrative: narr,
        }
    }

    fn nontrivial_rule(&self) -> &'static str {
        "a run is one history of 1–6 client requests (concurrent or chained) through one awc::Client with connection limit 1–3 against a scripted peer (framing, version, Connection header, cut/reset offset, close-after) under a simulator-chosen interleaving of client tasks, connect completions, response segments and connection ends; non-trivial = at least one connection opened and one request finished; distinct = distinct (scenario, decision tape, outcome)"
    }
    fn real_components(&self) -> Vec<&'static str> {
        vec!["awc::Client / Connector / ConnectionPool (semaphore, idle pool, liveness check, close task)", "awc h1proto::send_request, PlStream", "actix_http::h1::{ClientCodec, ClientPayloadCodec, decoder}", "actix_codec::Framed"]
    }
    fn stub_components(&self) -> Vec<&'static str> {
        vec!["transport connector (hands out SimSockets)", "DNS/TLS (none)", "scripted HTTP/1 peer with independent response serializer", "wake-driven executor, tokio paused clock"]
    }
    fn expected_probes(&self) -> Vec<&'static str> {
        vec!["connection_reused", "peer_closed", "peer_reset", "clean_ends", "send_errors", "body_errors", "waited_for_permit_runs"]
    }
}

fn unframed11(r: &ClReq) -> bool {
    has_body(r) && r.framing == Framing::UntilClose && !r.http10
}

/// A 304 response that carries Content-Length (> 0) or Transfer-Encoding: legal (RFC 7230 §3.3.2),
/// it has no body; the client nevertheless reads one (pinned by the stable test
/// `not_modified_spec_h1`).
fn phantom304(r: &ClReq) -> bool {
    r.status == 304 && !r.head_method && ((r.framing == Framing::Length && r.body_len > 0) || r.framing == Framing::Chunked)
}

fn why_nonpersistent(r: &ClReq) -> &'static str {
    if r.cut_at.is_some() {
        "response-cut"
    } else if has_body(r) && r.framing == Framing::UntilClose {
        "close-delimited-body"
    } else if r.http10 {
        "http10-without-keep-alive"
    } else {
        "connection-close"
    }
}
