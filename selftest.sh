#!/bin/bash
# ./check selftest [PROP ...] : determinism self-test of the simulator.
# Every rig is run three times on the same seed with different worker counts (and a second seed once);
# the per-run trace hashes (scenario, decision tape, outcome) must be identical, run by run.
# Exit 0 = deterministic, 1 = divergence (prints the first differing run), 2 = harness error.
HERE="$(cd "$(dirname "$0")" && pwd)"
props="$*"
[ -z "$props" ] && props="C01 C02 C03 C04 C05 C06 C07 C08 C11 C12 C13 C14 C15 C17 C19"
runs="${SELFTEST_RUNS:-3000}"
tmp="$(mktemp -d)"; trap 'rm -rf "$tmp"' EXIT
rc=0
for p in $props; do
  for seed in "${VERIF_SEED:-20260922}" 7; do
    prc=0
    for j in 16 5 1; do
      [ "$j" = 1 ] && [ "$seed" = 7 ] && continue
      VERIF_SEED=$seed "$HERE/check" "$p" quick --runs "$runs" --jobs "$j" --no-evidence --hashes "$tmp/$p.$seed.$j" > "$tmp/log" 2>&1
      st=$?
      if [ $st -ge 2 ]; then echo "HARNESS ERROR in $p (seed $seed, jobs $j)"; tail -n 5 "$tmp/log"; exit 2; fi
    done
    for j in 5 1; do
      [ -f "$tmp/$p.$seed.$j" ] || continue
      if ! cmp -s "$tmp/$p.$seed.16" "$tmp/$p.$seed.$j"; then
        echo "NON-DETERMINISTIC: $p seed $seed: jobs 16 vs jobs $j differ:"; diff "$tmp/$p.$seed.16" "$tmp/$p.$seed.$j" | head -n 4; rc=1; prc=1
      fi
    done
    echo "selftest $p seed $seed: $(wc -l < "$tmp/$p.$seed.16") runs x3 identical=$([ $prc = 0 ] && echo yes || echo NO)"
  done
done
exit $rc
